"""./check replay <file>: re-execute a minimised replay file in a fresh
interpreter through the same code path that found it (DESIGN §3.4)."""

from __future__ import annotations

import json

from . import core

ENGINES = {"histories": ("sim.histories:replay_worker", False),
           "schedules": ("sim.schedules:replay_worker", True),
           "faults": ("sim.faults:replay_worker", False)}


def main(opts) -> int:
    if not opts.arg:
        print("usage: ./check replay <file>")
        return 2
    with open(opts.arg) as fh:
        rep = json.load(fh)
    fn, coop = ENGINES[rep["engine"]]
    hashseed = rep.get("plan", {}).get("hashseed", 0)
    got1 = core.run_fresh(fn, {"plan": rep["plan"]}, hashseed=0, coop_locks=coop, timeout=600)
    got2 = core.run_fresh(fn, {"plan": rep["plan"]}, hashseed=hashseed or 0, coop_locks=coop, timeout=600)
    want = rep["signature"]["class"]
    classes = [s["class"] for s in got1["signatures"]]
    print(f"replay {opts.arg}: expected class {want}; observed {classes or 'no violation'}; "
          f"log digest {got1['log_digest']} (second execution: {got2['log_digest']})")
    if want == "hashseed_dependent" and rep.get("seed_idx") == -1:
        # found by the sampled cross-check: two fresh interpreters under different hash seeds
        if got1["log_digest"] != got2["log_digest"]:
            print(f"VIOLATION property={rep['property']} replay={opts.arg}")
            return 1
        print("not reproduced on this tree")
        return 0
    if got1["log_digest"] != got2["log_digest"] and not hashseed:
        print("HARNESS-ERROR replay is not deterministic")
        return 2
    for v in got1["violations"][:3]:
        print("  " + core.cjson(v)[:600])
    if got1["signatures"]:
        print(f"VIOLATION property={rep['property']} replay={opts.arg}")
        return 1
    print("not reproduced on this tree")
    return 0

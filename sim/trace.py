"""Call-boundary tracing: counting, fault injection, cleanup-region exclusion.

An injected fault models "the call the library just made fails".  It is never
placed while any library frame on the stack is executing a cleanup region (the
body of a ``finally:`` clause, an ``except`` handler, or an ``__exit__`` /
``__del__`` method): no implementation can be robust against its own cleanup
being blown away, so demanding that would be stricter than the properties.
"""

from __future__ import annotations

import ast
import sys

from . import boot


class InjectedFault(RuntimeError):
    """The simulator's own exception type for an injected failure."""


EXC_TYPES = {
    "InjectedFault": InjectedFault,
    "MemoryError": MemoryError,
    "KeyboardInterrupt": KeyboardInterrupt,
    "ValueError": ValueError,
    "OSError": OSError,
}

_cleanup_cache: dict = {}


def _cleanup_ranges(filename: str):
    """Sorted list of (first_line, last_line) of cleanup regions in a file."""
    r = _cleanup_cache.get(filename)
    if r is not None:
        return r
    ranges = []
    try:
        with open(filename, encoding="utf-8") as fh:
            tree = ast.parse(fh.read())
        for node in ast.walk(tree):
            if isinstance(node, (ast.Try, getattr(ast, "TryStar", ast.Try))):
                if node.finalbody:
                    ranges.append((node.finalbody[0].lineno, node.finalbody[-1].end_lineno))
                for h in node.handlers:
                    if h.body:
                        ranges.append((h.body[0].lineno, h.body[-1].end_lineno))
            elif isinstance(node, (ast.FunctionDef, ast.AsyncFunctionDef)):
                if node.name in ("__exit__", "__aexit__", "__del__"):
                    ranges.append((node.lineno, node.end_lineno))
    except (OSError, SyntaxError):
        pass
    _cleanup_cache[filename] = ranges
    return ranges


def in_cleanup(frame) -> bool:
    """True if any library frame on the stack (excluding `frame` itself, which
    has not started) is currently inside a cleanup region."""
    f = frame.f_back
    while f is not None:
        code = f.f_code
        if boot.is_lib_code(code):
            ln = f.f_lineno
            for a, b in _cleanup_ranges(code.co_filename):
                if a <= ln <= b:
                    return True
        f = f.f_back
    return False


class Injector:
    """Trace function: counts library call (and optionally return) boundaries
    and raises `exc` at the k-th eligible one.

    mode 'call'   : boundaries are call events only
    mode 'callret': call and return events
    site=None     : k counts all boundaries; otherwise only boundaries whose
                    (event, site) match.
    """

    def __init__(self, k: int | None, exc: str = "InjectedFault", mode: str = "call",
                 site: str | None = None, event: str = "call", collect_sites: bool = False,
                 gate=None, on_fire=None):
        self.k = k
        self.exc = exc
        self.mode = mode
        self.site = site
        self.event = event
        self.n = 0  # eligible boundaries seen
        self.steps = 0  # all library boundaries seen
        self.fired = None
        self.skipped_cleanup = 0
        self.collect_sites = collect_sites
        self.sites: dict = {}
        self.gate = gate  # optional callable() -> bool: only count while True
        self.on_fire = on_fire  # optional callable() -> picklable probe value, evaluated when the fault fires
        self._want_ret = mode == "callret" or event == "return"
        self._excf: set = set()  # frames in which an exception event was seen

    def __call__(self, frame, event, arg):
        if event != "call":
            return None
        code = frame.f_code
        if not boot.is_lib_code(code):
            return None
        self._boundary(frame, "call")
        if self._want_ret:
            frame.f_trace_lines = False
            return self._local
        return None

    def _local(self, frame, event, arg):
        # a 'return' event is also delivered while an exception unwinds the
        # frame; only a normal return is a boundary (conservatively: a frame
        # that ever saw an exception event is not eligible any more).
        if event == "return":
            if id(frame) in self._excf:
                self._excf.discard(id(frame))
            else:
                self._boundary(frame, "return")
        elif event == "exception":
            self._excf.add(id(frame))
        return self._local

    def _boundary(self, frame, ev):
        self.steps += 1
        if self.gate is not None and not self.gate():
            return
        site = None
        if self.collect_sites or self.site is not None:
            site = boot.site_of(frame.f_code)
        if self.collect_sites:
            key = ev + "@" + site
            self.sites[key] = self.sites.get(key, 0) + 1
        if self.fired is not None or self.k is None:
            return
        if self.site is not None:
            if ev != self.event or site != self.site:
                return
        elif ev == "return" and self.mode != "callret":
            return
        self.n += 1
        if self.n >= self.k:
            if in_cleanup(frame) or (ev == "return" and _frame_in_cleanup_self(frame)):
                self.skipped_cleanup += 1
                return  # try the next eligible boundary
            self.fired = {"n": self.n, "step": self.steps, "event": ev,
                          "site": boot.site_of(frame.f_code), "exc": self.exc}
            if self.on_fire is not None:
                try:
                    self.fired["probe"] = self.on_fire()
                except Exception:  # noqa: BLE001 - probes never decide anything
                    self.fired["probe"] = None
            raise EXC_TYPES[self.exc](f"injected {self.exc} at {ev} #{self.n}")


def _frame_in_cleanup_self(frame) -> bool:
    code = frame.f_code
    ln = frame.f_lineno
    for a, b in _cleanup_ranges(code.co_filename):
        if a <= ln <= b:
            return True
    return False


def traced(injector, fn):
    """Run fn() under the injector; always uninstall."""
    old = sys.gettrace()
    sys.settrace(injector)
    try:
        return fn()
    finally:
        sys.settrace(old)

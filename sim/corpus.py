"""Corpus documents: the constructor arguments of every RTFDocument that the repository's own
test-suite builds (harvested by running the suite once with sim.harvest_plugin), used as
additional, realistic documents in the C14 histories.  Rebuilt from /repo on every check."""

from __future__ import annotations

import os
import pickle
import subprocess
import sys

from . import boot, core

FILES: list = []   # file names (sorted) - set by harvest(); inherited by forked workers
DIR: str | None = None


def harvest(dest: str, timeout: float = 300.0) -> int:
    """Run the repository's tests once, recording RTFDocument constructor arguments. Returns the count."""
    global FILES, DIR
    os.makedirs(dest, exist_ok=True)
    repo_root = os.path.dirname(boot.REPO_SRC)
    tests = os.path.join(repo_root, "tests")
    if not os.path.isdir(tests):
        tests = "/repo/tests"  # scratch copies of src only (sensitivity self-test) use the repository's tests
    env = dict(os.environ)
    env["VERIF_HARVEST_OUT"] = dest
    env["PYTHONPATH"] = boot.REPO_SRC + os.pathsep + core.VERIF_DIR
    env["PYTHONHASHSEED"] = "0"
    try:
        subprocess.run([sys.executable, "-m", "pytest", "-q", "-p", "no:cacheprovider", "-p", "sim.harvest_plugin",
                        "-n", "0", "-x", tests], cwd=os.path.dirname(tests), env=env, capture_output=True,
                       timeout=timeout)
    except (subprocess.TimeoutExpired, OSError):
        pass
    DIR = dest
    FILES = sorted(f for f in os.listdir(dest) if f.endswith(".pkl") and os.path.getsize(os.path.join(dest, f)) < 60_000)
    return len(FILES)


def recipe_for(name: str) -> dict:
    """A self-contained corpus recipe (the pickle travels inside it: reference servers, fresh interpreters
    and replay files need no access to the harvest directory)."""
    import base64

    with open(os.path.join(DIR, name), "rb") as fh:
        blob = fh.read()
    return {"kind": "corpus", "file": name, "blob_b64": base64.b64encode(blob).decode("ascii")}


def load_kwargs(recipe: dict) -> dict:
    import base64

    return pickle.loads(base64.b64decode(recipe["blob_b64"]))


def frames_of(kwargs: dict) -> list:
    df = kwargs.get("df")
    if df is None:
        return []
    return list(df) if isinstance(df, list) else [df]

"""C18 engine: exports are all-or-nothing and leave no debris (fault sequences).

A run = one pristine process, one sandbox on a real file system, a sequence of
write_rtf / write_docx / write_html / write_pdf calls with injected faults,
followed by fault-free recovery exports.  The only stub is the ``soffice``
executable (a scripted shell script in the sandbox, run by the real
``subprocess``); the real LibreOfficeConverter runs on top of it.
Oracle: file-system snapshots before/after each export.  See DESIGN §6.
"""

from __future__ import annotations

import errno
import hashlib
import os
import shutil
import stat
import sys
import tempfile
import time

from . import core, recipes as R
from .core import HarnessError, cjson, digest

PROP = "C18"
KINDS = ["write_rtf", "write_docx", "write_html", "write_pdf"]
FMT = {"write_docx": "docx", "write_html": "html", "write_pdf": "pdf"}
SUFFIX = {"write_rtf": ".rtf", "write_docx": ".docx", "write_html": ".html", "write_pdf": ".pdf"}

SOFFICE_SH = r"""#!/bin/sh
# scripted stand-in for the LibreOffice executable (simulation only)
BIN=$(dirname "$0")
CTL="$BIN/../ctl"
V_MODE=ok; C_MODE=ok; RES=0; SEQ=0; DIE=exit1
[ -f "$CTL/behaviour" ] && . "$CTL/behaviour"
if [ "$1" = "--version" ]; then
  echo "VERSION $V_MODE" >> "$CTL/log"
  case "$V_MODE" in
    ok) echo "LibreOffice 24.8.3.2 480(Build:2)";;
    fail) echo "boom" >&2; exit 3;;
    garbage) echo "Some Office 1.0";;
    old) echo "LibreOffice 6.4.7.2 40(Build:2)";;
    vanish) echo "LibreOffice 24.8.3.2 480(Build:2)"; rm -f "$0";;
  esac
  exit 0
fi
fmt=""; outdir=""; input=""
while [ $# -gt 0 ]; do
  case "$1" in
    --convert-to) fmt="$2"; shift 2;;
    --outdir) outdir="$2"; shift 2;;
    --*) shift;;
    *) input="$1"; shift;;
  esac
done
base=$(basename "$input"); stem="${base%.*}"
out="$outdir/$stem.$fmt"
# C_MODE may be a comma-separated list: the n-th conversion of this export behaves like the n-th entry
# (the last entry repeats) - a converter that is retried sees a process that behaves differently each time
n=$(cat "$CTL/count_$SEQ" 2>/dev/null || echo 0); n=$((n + 1)); echo "$n" > "$CTL/count_$SEQ"
modes="$C_MODE"; i=1; C_MODE="${modes%%,*}"
while [ "$i" -lt "$n" ] && [ "$modes" != "${modes#*,}" ]; do modes="${modes#*,}"; C_MODE="${modes%%,*}"; i=$((i + 1)); done
echo "CONVERT $C_MODE $fmt" >> "$CTL/log"
echo "INPUT $(sha256sum < "$input" | cut -c1-64)" >> "$CTL/log"
wrote() { printf 'WROTE %s %s\n' "$(sha256sum < "$1" | cut -c1-64)" "$1" >> "$CTL/log"; }
full() { { printf 'FAKE-%s:%s:' "$fmt" "$SEQ"; sha256sum < "$input"; } > "$out"; wrote "$out"; }
res() {
  if [ "$fmt" = "html" ] && [ "$RES" -gt 0 ]; then
    mkdir -p "$out"_files
    printf 'IMG0-%s' "$SEQ" > "$out"_files/img0.png; wrote "$out"_files/img0.png
    if [ "$RES" -gt 1 ]; then
      mkdir -p "$out"_files/sub
      printf 'IMG1-%s' "$SEQ" > "$out"_files/sub/img1.png; wrote "$out"_files/sub/img1.png
    fi
  fi
}
die() {
  # how a failing converter process ends: plain exit codes, shell-style 128+signal, or a real signal
  case "$DIE" in
    exit1) exit 1;; exit77) exit 77;; exit139) exit 139;; exit255) exit 255;;
    segv) kill -SEGV $$; sleep 1; exit 139;; kill) kill -KILL $$; sleep 1; exit 137;;
    code*) exit "${DIE#code}";;
    stall) sleep 3; exit 1;;
  esac
  exit 1
}
case "$C_MODE" in
  ok) full; res;;
  fail_before) echo "conversion failed" >&2; die;;
  fail_after_partial) printf 'PARTIAL' > "$out"; echo "died" >&2; die;;
  fail_after_complete) full; res; echo "died late" >&2; die;;
  no_output) :;;
  wipe_outdir) full; rm -rf "$outdir"; echo "cleaned up after myself" >&2; die;;
  wrong_name) printf 'OTHER-%s' "$SEQ" > "$outdir/other.$fmt";;
  stray) full; res; : > "$outdir/.~lock.$stem.$fmt#"; : > "$(dirname "$input")/.~lock.$base#";;
esac
exit 0
"""

V_MODES_FAIL = ["fail", "garbage", "old", "missing"]
C_MODES_FAIL = ["fail_before", "fail_after_partial", "fail_after_complete", "no_output", "wrong_name", "vanish",
                "wipe_outdir", "fail_after_partial,no_output", "fail_after_complete,no_output",
                "fail_after_partial,fail_before", "no_output,fail_after_partial"]
# sequences in which some attempt succeeds: an implementation that retries may legitimately succeed
C_MODES_MAY = ["fail_before,ok", "fail_after_partial,ok", "no_output,ok"]
NEAR_COPIES = ["identical", "crlf", "cr", "bom", "trailing_newline", "truncated", "latin1", "upper_first"]
DIE_MODES = ["exit1", "exit77", "exit139", "exit255", "segv", "kill"]
EXIT_CODES = list(range(1, 256))
DUCK_BAD = ["ret_str", "ret_list", "ret_none", "ret_missing_path", "raise_after_output", "raise_before_output",
            "raise_after_wiping_outdir"]
E_EXCS = ["InjectedFault", "MemoryError", "KeyboardInterrupt", "OSError"]


# --------------------------------------------------------------------------
# plan generation (pure)
# --------------------------------------------------------------------------


def gen_target(rng, kind: str) -> dict:
    name = rng.choice(["report", "report.v2", "out put", "tbl-01", "r", "noext", ".hidden", "résumé", "表_14_1",
                       "REPORT", "a'b", "x;y", "50%", "-dash", "report[1]", "t[ab]c", "star*", "q?", "{x}", "$HOME",
                       "a\\b", "tab\tname"])
    suffix = SUFFIX[kind]
    r = rng.random()
    if r < 0.12:
        suffix = ""  # suffix-less target
    elif r < 0.2 and kind == "write_html":
        suffix = ".htm"
    t = {
        "name": name + suffix,
        "missing_parents": rng.choice([0, 0, 0, 1, 2, 3]),
        "style": rng.choice(["str", "str", "Path", "Path", "tilde", "tilde", "relative", "relative", "symdotdot", "fspath", "dotslash"]),
        "pre": rng.choice(["absent", "absent", "file", "file", "earlier", "empty"]),
    }
    if t["missing_parents"]:
        t["pre"] = "absent"
    if kind == "write_rtf" and t["pre"] == "file" and rng.random() < 0.5:
        # the target already holds (nearly) what is about to be written: an earlier export that went
        # through an editor, another platform's line endings, a BOM ... "is it up to date?" shortcuts show here
        t["pre"] = "near_copy"
        t["near"] = rng.choice(NEAR_COPIES)
    return t


def gen_fault(rng, kind: str, allow_e3_figure: bool, allow_e3_group: bool) -> dict:
    """One fault for one export (or none)."""
    r = rng.random()
    if r < 0.3:
        return {"kind": "none"}
    if r < 0.6:
        phase = "encode" if (kind == "write_rtf" or rng.random() < 0.5) else "convert"
        return {"kind": "E", "phase": phase, "u": rng.random(), "exc": rng.choice(E_EXCS),
                "mode": rng.choice(["call", "callret"]), "k": None}
    if r < 0.7:
        opts = ["font"]
        if allow_e3_figure:
            opts += ["fig_deleted", "fig_isdir"]
        return {"kind": "E3", "what": rng.choice(opts), "n": rng.choice([1, 2, 5, 20])}
    if kind == "write_rtf":
        return {"kind": "E", "phase": "encode", "u": rng.random(), "exc": rng.choice(E_EXCS),
                "mode": "call", "k": None}
    r2 = rng.random()
    if r2 < 0.08:
        return {"kind": "T", "mode": "enospc", "n": 1}
    if r2 < 0.25:
        return {"kind": "V", "mode": rng.choice(V_MODES_FAIL)}
    if r2 < 0.7:
        if rng.random() < 0.12:
            return {"kind": "P", "mode": rng.choice(C_MODES_MAY), "die": rng.choice(DIE_MODES)}
        die = rng.choice(DIE_MODES) if rng.random() < 0.5 else f"code{rng.choice(EXIT_CODES)}"
        if rng.random() < 0.03:
            die = "stall"  # the process hangs after (partial) output; only meaningful if the converter has a time limit
        return {"kind": "P", "mode": rng.choice(C_MODES_FAIL), "die": die}
    return {"kind": "M", "mode": rng.choice(DUCK_BAD)}


def gen_plan(rng) -> dict:
    t = R.gen_toggles(rng)
    t["small_nrow"] = rng.random() < 0.3
    pal = R.gen_palette_of_specs(rng, t)
    recs = [R.gen_recipe(rng, t, pal) for _ in range(rng.choice([1, 1, 2]))]
    has_fig = [r["kind"] == "figure" for r in recs]
    nops = rng.randint(1, 6)
    ops = []
    for _ in range(nops):
        kind = rng.choice(KINDS)
        di = rng.randrange(len(recs))
        fault = gen_fault(rng, kind, has_fig[di], True)
        conv = "none"
        if kind != "write_rtf":
            conv = rng.choice(["default", "default", "explicit", "reuse", "duck_ok"])
            if fault["kind"] == "M":
                conv = "duck_bad"
            elif fault["kind"] == "V":
                conv = "default"
            elif fault["kind"] == "P" and conv == "duck_ok":
                conv = "explicit"
            elif fault["kind"] == "E" and fault["phase"] == "convert" and conv == "duck_ok":
                conv = "explicit"
        ops.append({"kind": kind, "doc": di, "target": gen_target(rng, kind), "fault": fault, "converter": conv,
                    "res": rng.choice([0, 1, 2]) if kind == "write_html" else 0,
                    "stray": rng.random() < 0.15})
    # the user tidies up: directories created for an earlier export are removed before the next one
    for i, o in enumerate(ops):
        o["id"] = i  # stable name for the directories this export creates (survives minimisation)
    withdirs = [i for i, o in enumerate(ops) if o["target"]["missing_parents"] > 0]
    for i in reversed(withdirs):
        if i + 1 < len(ops) and rng.random() < 0.5:
            ops.insert(i + 1, {"kind": "user_rmtree", "of_id": ops[i]["id"], "style": ops[i]["target"]["style"]})
    # reuse an earlier target sometimes (existing file + existing resource dir)
    for i in range(1, len(ops)):
        if ops[i]["kind"] == "user_rmtree":
            continue
        if rng.random() < 0.35:
            j = rng.randrange(i)
            if ops[j]["kind"] == ops[i]["kind"]:
                ops[i]["target"] = dict(ops[j]["target"], pre="earlier")
                ops[i]["dir_id"] = ops[j].get("dir_id", ops[j]["id"])  # the very same path, directories included
    xdev = rng.random() < 0.4
    # the user EDITS a live document in place between two exports of it (a nested attribute: the document object
    # itself is not assigned to) - own stream, decided after everything else
    import random as _random
    import zlib as _zlib

    erng = _random.Random(_zlib.crc32(core.cjson(ops).encode()))
    seen_docs: set = set()
    out_ops = []
    for o in ops:
        if o["kind"] != "user_rmtree":
            if o["doc"] in seen_docs and erng.random() < 0.5:
                out_ops.append({"kind": "user_edit", "doc": o["doc"],
                                "what": erng.choice(["title", "footnote", "source", "page_header", "any"]),
                                "rev": len(out_ops)})
            seen_docs.add(o["doc"])
        out_ops.append(o)
    return {"recipes": recs, "ops": out_ops, "xdev": xdev,
            "recovery": True}


# --------------------------------------------------------------------------
# sandbox
# --------------------------------------------------------------------------


class Sandbox:
    def __init__(self, root: str, xdev: bool):
        self.root = root
        self.out = os.path.join(root, "out")
        self.home = os.path.join(root, "home")
        self.cwd = os.path.join(root, "cwd")
        self.bin = os.path.join(root, "bin")
        self.ctl = os.path.join(root, "ctl")
        self.fig = os.path.join(root, "fig")
        self.alt = None
        self.tmp = os.path.join(root, "tmp")
        for d in (self.out, self.home, self.cwd, self.bin, self.ctl, self.fig, self.tmp):
            os.makedirs(d, exist_ok=True)
        self.xdev_effective = False
        if xdev:
            for base in ("/tmp", "/var/tmp"):
                try:
                    if os.path.isdir(base) and os.stat(base).st_dev != os.stat(root).st_dev:
                        self.alt = tempfile.mkdtemp(prefix="rtflite_verif_x_", dir=base)
                        self.tmp = os.path.join(self.alt, "tmp")
                        os.makedirs(self.tmp)
                        self.xdev_effective = True
                        break
                except OSError:
                    continue
        self.install_soffice()
        self.seq = 0
        self.plant_decoys()

    def plant_decoys(self):
        """Unrelated user content that merely LOOKS like the library's scratch files, some of it old:
        nothing an export does may touch it (stale-file collectors, pattern-based cleanups)."""
        old = time.time() - 3 * 86400
        for base in (self.tmp, self.out, self.cwd):
            for name, is_dir in (("rtflite-ab12cd34", True), ("rtflite_old", True), ("tmpk3j2h1x9", True),
                                 ("report.rtf", False), ("lu4711.tmp", False), (".~lock.report.docx#", False),
                                 ("report.html_files.bak", True)):
                p = os.path.join(base, "decoy_" + name if base != self.tmp else name)
                try:
                    if is_dir:
                        os.makedirs(p, exist_ok=True)
                        with open(os.path.join(p, "keep.txt"), "w") as fh:
                            fh.write("user data")
                        os.utime(os.path.join(p, "keep.txt"), (old, old))
                    else:
                        with open(p, "w") as fh:
                            fh.write("user data " + name)
                    os.utime(p, (old, old))
                except OSError:
                    pass

    def install_soffice(self):
        p = os.path.join(self.bin, "soffice")
        with open(p, "w") as fh:
            fh.write(SOFFICE_SH)
        os.chmod(p, 0o755)
        self.soffice = p

    def behaviour(self, v_mode="ok", c_mode="ok", res=0, die="exit1"):
        self.seq += 1
        with open(os.path.join(self.ctl, "behaviour"), "w") as fh:
            fh.write(f"V_MODE={v_mode}\nC_MODE={c_mode}\nRES={res}\nSEQ={self.seq}\nDIE={die}\n")
        open(os.path.join(self.ctl, "log"), "w").close()

    def log(self) -> list:
        try:
            with open(os.path.join(self.ctl, "log")) as fh:
                return [l.rstrip("\n") for l in fh]
        except OSError:
            return []

    def enter(self):
        os.environ["TMPDIR"] = self.tmp
        os.environ["HOME"] = self.home
        os.environ["PATH"] = self.bin + ":/usr/bin:/bin"
        tempfile.tempdir = self.tmp
        os.chdir(self.cwd)

    def roots(self) -> dict:
        d = {"out": self.out, "home": self.home, "cwd": self.cwd, "tmp": self.tmp}
        return d

    def snapshot(self) -> dict:
        snap = {}
        for label, base in self.roots().items():
            for dirpath, dirnames, filenames in os.walk(base):
                dirnames.sort()
                rel = os.path.relpath(dirpath, base)
                key = label if rel == "." else f"{label}/{rel}"
                snap[key] = ("d",)
                for f in sorted(filenames):
                    p = os.path.join(dirpath, f)
                    try:
                        st = os.lstat(p)
                        if stat.S_ISLNK(st.st_mode):
                            snap[f"{key}/{f}"] = ("l", os.readlink(p))
                        else:
                            with open(p, "rb") as fh:
                                b = fh.read()
                            snap[f"{key}/{f}"] = ("f", len(b), hashlib.sha256(b).hexdigest())
                    except OSError as e:
                        snap[f"{key}/{f}"] = ("?", e.errno)
        return snap

    def key_of(self, abspath: str) -> str:
        ap = os.path.abspath(abspath)
        for label, base in self.roots().items():
            if ap == base:
                return label
            if ap.startswith(base + os.sep):
                return f"{label}/{os.path.relpath(ap, base)}"
        return "outside:" + ap

    def cleanup(self):
        if self.alt:
            shutil.rmtree(self.alt, ignore_errors=True)
        shutil.rmtree(self.root, ignore_errors=True)


def resolve_target(sb: Sandbox, t: dict, op_index: int):
    """Returns (argument to pass, absolute path)."""
    from pathlib import Path

    parents = [f"m{op_index}_{k}" for k in range(t["missing_parents"])]
    style = t["style"]
    if style == "tilde":
        rel = os.path.join("docs", *parents, t["name"])
        ab = os.path.join(sb.home, rel)
        os.makedirs(os.path.join(sb.home, "docs"), exist_ok=True)
        return "~/" + rel, ab
    if style == "relative":
        rel = os.path.join("rel", *parents, t["name"])
        ab = os.path.join(sb.cwd, rel)
        os.makedirs(os.path.join(sb.cwd, "rel"), exist_ok=True)
        return rel, ab
    if style == "symdotdot":
        # the requested path goes through a directory SYMLINK and then "..": the operating system resolves
        # <link>/.. to the parent of the link's TARGET, textual normalisation would pick the link's own parent
        real = os.path.join(sb.out, f"real_{op_index}")
        os.makedirs(os.path.join(real, "sub"), exist_ok=True)
        link = os.path.join(sb.out, f"link_{op_index}")
        if not os.path.lexists(link):
            os.symlink(os.path.join(real, "sub"), link)
        ab = os.path.join(real, *parents, t["name"])
        return os.path.join(link, "..", *parents, t["name"]), ab
    ab = os.path.join(sb.out, *parents, t["name"])
    if style == "fspath":
        class _PathLike:  # any os.PathLike is a legitimate path argument
            def __init__(self, p):
                self._p = p

            def __fspath__(self):
                return self._p

        return _PathLike(ab), ab
    if style == "dotslash":
        # redundant but legal spelling: extra separators and '.' components
        d, b = os.path.split(ab)
        return d + os.sep + "." + os.sep + os.sep + b, ab
    return (Path(ab) if style == "Path" else ab), ab


# --------------------------------------------------------------------------
# duck-typed converters (public `converter=` parameter)
# --------------------------------------------------------------------------


class DuckConverter:
    def __init__(self, mode: str, seq: int):
        self.mode = mode
        self.seq = seq
        self.wrote: list = []
        self.called = 0

    def convert(self, input_files, output_dir, format="pdf", overwrite=False):
        from pathlib import Path

        self.called += 1
        inp = Path(str(input_files))
        out = Path(str(output_dir)) / f"{inp.stem}.{format}"
        m = self.mode
        if m == "raise_before_output":
            raise RuntimeError("duck converter failed before output")
        if m == "raise_after_wiping_outdir":
            shutil.rmtree(str(output_dir), ignore_errors=True)
            raise RuntimeError("duck converter removed its output directory and failed")
        if m in ("ok", "raise_after_output", "ret_str", "ret_list"):
            data = f"DUCK-{format}:{self.seq}:".encode() + hashlib.sha256(inp.read_bytes()).hexdigest().encode()
            out.write_bytes(data)
            self.wrote.append((str(out), hashlib.sha256(data).hexdigest()))
        if m == "raise_after_output":
            raise RuntimeError("duck converter failed after output")
        if m == "ret_str":
            return str(out)
        if m == "ret_list":
            return [out]
        if m == "ret_none":
            return None
        if m == "ret_missing_path":
            return Path(str(output_dir)) / f"nope.{format}"
        return out


# --------------------------------------------------------------------------
# phase-aware injector
# --------------------------------------------------------------------------


class PhaseTracer:
    """Counts library boundaries inside the encode / convert phases of one
    export, optionally injects at the k-th eligible boundary of a phase or at
    an instance of a given site, captures what rtf_encode() returned.

    Phase roots (public API names only): a library frame named ``rtf_encode``
    opens the encode phase; a library frame whose code lives in the module that
    defines the converter class opens the convert phase."""

    def __init__(self, inject: dict | None, collect: bool, convert_file: str | None):
        from . import boot
        from .trace import EXC_TYPES, _frame_in_cleanup_self, in_cleanup

        self.boot = boot
        self.EXC = EXC_TYPES
        self.in_cleanup = in_cleanup
        self.self_cleanup = _frame_in_cleanup_self
        self.inject = inject
        self.collect = collect
        self.convert_file = convert_file
        self.phase = None
        self.root_frame = None
        self.sites: dict = {}
        self.counts = {"encode": 0, "convert": 0}
        self.counts_ev = {"encode|call": 0, "encode|return": 0, "convert|call": 0, "convert|return": 0}
        self.n = 0
        self.fired = None
        self.skipped_cleanup = 0
        self.encoded: list = []  # strings returned by rtf_encode during this export
        self.steps = 0
        self._excf: set = set()
        self.want_ret = bool(collect or (inject and (inject.get("mode") == "callret" or inject.get("event") == "return")))
        self.tmp_dirs_alive_at_fire = None
        self.converter_output_exists_at_fire = None

    def __call__(self, frame, event, arg):
        if event != "call":
            return None
        code = frame.f_code
        if not self.boot.is_lib_code(code):
            return None
        is_root = False
        if self.phase is None:
            if code.co_name == "rtf_encode":
                self.phase = "encode"
                is_root = True
            elif self.convert_file and code.co_filename == self.convert_file:
                self.phase = "convert"
                is_root = True
            if is_root:
                self.root_frame = frame
        if self.phase is not None:
            self._boundary(frame, "call")
        if is_root or (self.want_ret and self.phase is not None):
            frame.f_trace_lines = False
            return self._local
        return None

    def _local(self, frame, event, arg):
        if event == "return":
            unwinding = id(frame) in self._excf
            self._excf.discard(id(frame))
            if frame is self.root_frame:
                if self.phase == "encode" and not unwinding and isinstance(arg, str):
                    self.encoded.append(arg)
                if not unwinding and self.want_ret:
                    self._boundary(frame, "return")
                self.phase = None
                self.root_frame = None
            elif not unwinding and self.want_ret and self.phase is not None:
                self._boundary(frame, "return")
        elif event == "exception":
            self._excf.add(id(frame))
        return self._local

    def _boundary(self, frame, ev):
        self.steps += 1
        ph = self.phase
        self.counts[ph] += 1
        self.counts_ev[f"{ph}|{ev}"] += 1
        site = None
        inj = self.inject
        if self.collect or (inj and inj.get("site")):
            site = self.boot.site_of(frame.f_code)
        if self.collect:
            key = f"{ph}|{ev}@{site}"
            self.sites[key] = self.sites.get(key, 0) + 1
        if inj is None or self.fired is not None:
            return
        if inj.get("site"):
            if inj["phase"] != ph or inj["event"] != ev or inj["site"] != site:
                return
        else:
            if inj["phase"] != ph:
                return
            if ev == "return" and inj.get("mode") != "callret":
                return
        self.n += 1
        if self.n >= inj["k"]:
            if self.in_cleanup(frame) or (ev == "return" and self.self_cleanup(frame)):
                self.skipped_cleanup += 1
                return
            self.fired = {"phase": ph, "event": ev, "n": self.n, "site": self.boot.site_of(frame.f_code),
                          "exc": inj["exc"]}
            raise self.EXC[inj["exc"]](f"injected {inj['exc']} in {ph} phase at {ev} #{self.n}")


# --------------------------------------------------------------------------
# execution (pristine child)
# --------------------------------------------------------------------------


def _tmp_listing(sb: Sandbox) -> list:
    try:
        return sorted(os.listdir(sb.tmp))
    except OSError:
        return ["<unlistable>"]


def exec_faults(arg) -> dict:
    from . import boot

    boot.bootstrap()
    import rtflite
    import rtflite.convert as conv_mod

    plan = arg["plan"]
    sb = Sandbox(arg["sb_root"], plan.get("xdev", False))
    try:
        return _exec_faults(plan, sb, rtflite, conv_mod, arg)
    finally:
        sb.cleanup()


def _exec_faults(plan, sb, rtflite, conv_mod, arg) -> dict:
    sb.enter()
    convert_file = conv_mod.__file__
    recs = plan["recipes"]
    docs = []
    doc_err = []
    for r in recs:
        try:
            d, _ = R.build(r, None, None, sb.fig)
            docs.append(d)
            doc_err.append(None)
        except BaseException as e:  # noqa: BLE001
            docs.append(None)
            doc_err.append(type(e).__name__)
    log = []
    reused_converter = [None]
    ops = list(plan["ops"])
    n_main = len(ops)
    if plan.get("recovery"):
        for kind in KINDS:
            for di in range(len(recs)):
                if docs[di] is None:
                    continue
                ops.append({"kind": kind, "doc": di, "recovery": True, "fault": {"kind": "none"},
                            "target": {"name": f"recovery{di}{SUFFIX[kind]}", "missing_parents": 0,
                                       "style": "relative" if kind in ("write_rtf", "write_html") else "str",
                                       "pre": "absent"},
                            "converter": "default" if kind != "write_rtf" else "none", "res": 1, "stray": False})
                break
    collect = bool(arg.get("collect_sites"))
    calib_ok = arg.get("calib_ok") or {}
    # capture what rtf_encode() returns inside an export, independently of the
    # tracer (a trace function that raised is uninstalled by the interpreter)
    captured: list = []
    doc_cls = type(next(d for d in docs if d is not None)) if any(d is not None for d in docs) else None
    orig_encode = getattr(doc_cls, "rtf_encode", None) if doc_cls else None
    if orig_encode is not None:
        def _capturing_encode(self, *a, **k):
            s = orig_encode(self, *a, **k)
            if isinstance(s, str):
                captured.append(s)
            return s

        doc_cls.rtf_encode = _capturing_encode
    for i, op in enumerate(ops):
        if op["kind"] == "user_rmtree":
            # the simulated user removes the directories an earlier export created
            base = {"tilde": os.path.join(sb.home, "docs"), "relative": os.path.join(sb.cwd, "rel")}.get(
                op["style"], sb.out)
            d = os.path.join(base, f"m{op['of_id']}_0")
            existed = os.path.isdir(d)
            shutil.rmtree(d, ignore_errors=True)
            log.append({"i": i, "kind": "user_rmtree", "skipped": "user action", "removed": existed})
            continue
        if op["kind"] == "user_edit":
            # the simulated user changes a text of the live document in place (nested attribute)
            d_ = docs[op["doc"]]
            edited = None
            if d_ is not None:
                order_ = {"title": ["rtf_title"], "footnote": ["rtf_footnote"], "source": ["rtf_source"],
                          "page_header": ["rtf_page_header"]}.get(op["what"], [])
                for attr in order_ + ["rtf_title", "rtf_footnote", "rtf_source", "rtf_page_header", "rtf_page_footer"]:
                    comp = getattr(d_, attr, None)
                    txt = getattr(comp, "text", None) if comp is not None else None
                    if txt:
                        try:
                            new = [str(x) + f" (rev {op['rev']})" for x in (txt if isinstance(txt, (list, tuple)) else [txt])]
                            comp.text = type(txt)(new) if isinstance(txt, (list, tuple)) else new[0]
                            edited = attr
                        except Exception:  # noqa: BLE001 - a component that refuses assignment: no edit then
                            edited = None
                        break
            log.append({"i": i, "kind": "user_edit", "skipped": "user action", "edited": edited})
            continue
        ev = {"i": i, "kind": op["kind"], "recovery": bool(op.get("recovery")), "fault": op["fault"],
              "converter": op["converter"], "target": op["target"], "doc": op["doc"]}
        doc = docs[op["doc"]]
        if doc is None:
            ev["skipped"] = "doc_construct_failed:" + str(doc_err[op["doc"]])
            log.append(ev)
            continue
        sb.install_soffice() if not os.path.exists(sb.soffice) else None
        targ_arg, targ_abs = resolve_target(sb, op["target"], op.get("dir_id", op.get("id", f"x{i}")))
        ev["target_key"] = sb.key_of(targ_abs)
        pre = op["target"]["pre"]
        if pre in ("file", "empty") and not os.path.lexists(targ_abs):
            os.makedirs(os.path.dirname(targ_abs), exist_ok=True)
            with open(targ_abs, "wb") as fh:
                # "empty": a zero-byte placeholder (mkstemp, touch) is a pre-existing file like any other
                fh.write(b"" if pre == "empty" else f"PRE-EXISTING {i} {op['target']['name']}".encode())
        if pre == "near_copy" and not os.path.lexists(targ_abs):
            try:
                text = orig_encode(doc)
                near = op["target"].get("near", "identical")
                data = text.encode("utf-8")
                if near == "crlf":
                    data = text.replace("\n", "\r\n").encode("utf-8")
                elif near == "cr":
                    data = text.replace("\n", "\r").encode("utf-8")
                elif near == "bom":
                    data = b"\xef\xbb\xbf" + data
                elif near == "trailing_newline":
                    data = data + b"\n"
                elif near == "truncated":
                    data = data[:-1]
                elif near == "latin1":
                    data = text.encode("latin-1", "replace")
                elif near == "upper_first":
                    data = data[:1].upper() + data[1:] if data[:1].upper() != data[:1] else data + b" "
            except BaseException:  # noqa: BLE001 - document does not encode: an ordinary pre-existing file
                data = f"PRE-EXISTING {i}".encode()
            os.makedirs(os.path.dirname(targ_abs), exist_ok=True)
            with open(targ_abs, "wb") as fh:
                fh.write(data)
        if pre == "symlink" and not os.path.lexists(targ_abs):
            # the requested path is a symbolic link to a file kept elsewhere (a shared results area, say)
            os.makedirs(os.path.dirname(targ_abs), exist_ok=True)
            linked = os.path.join(os.path.dirname(targ_abs), f"linked_{i}.dat")
            with open(linked, "wb") as fh:
                fh.write(f"LINKED PRE-EXISTING {i}".encode())
            os.symlink(linked, targ_abs)
        if pre == "dir" and not os.path.lexists(targ_abs):
            # a directory already sits at the requested path
            os.makedirs(targ_abs, exist_ok=True)
            with open(os.path.join(targ_abs, "keep.txt"), "wb") as fh:
                fh.write(b"content of the directory that sits at the target path")
        if os.path.islink(targ_abs):
            ev["link_key"] = sb.key_of(os.path.join(os.path.dirname(targ_abs), os.readlink(targ_abs)))
        ev["target_is_dir"] = os.path.isdir(targ_abs) and not os.path.islink(targ_abs)
        if os.path.isdir(os.path.dirname(targ_abs)) and not op.get("recovery"):
            # NEIGHBOURS: things next to the target that the export does not own (another report's resource
            # folder, backups, an editor's lock file, a similarly named directory) - nothing may touch them
            tdir_, tname_ = os.path.split(targ_abs)
            stem_, suf_ = os.path.splitext(tname_)
            for nb, is_dir in ((f"{stem_}.v2{suf_ or '.html'}_files", True), (f"{tname_}.bak_files", True),
                               (f"{stem_}_files", True), (f"{tname_}_files.old", True), (f"{tname_}.bak", False),
                               (f".~lock.{tname_}#", False), (f"{stem_}2{suf_}", False)):
                pnb = os.path.join(tdir_, nb)
                if os.path.lexists(pnb) or pnb == targ_abs:
                    continue
                try:
                    if is_dir:
                        os.makedirs(pnb)
                        with open(os.path.join(pnb, "image1.png"), "wb") as fh:
                            fh.write(b"neighbour resource " + nb.encode("utf-8", "replace"))
                    else:
                        with open(pnb, "wb") as fh:
                            fh.write(b"neighbour " + nb.encode("utf-8", "replace"))
                except OSError:
                    pass
        ev["target_pre_state"] = ("exists" if os.path.lexists(targ_abs) else
                                  ("missing_parents" if not os.path.isdir(os.path.dirname(targ_abs)) else "absent"))
        fault = op["fault"]
        fk = fault["kind"]
        # --- configure the converter process / object ------------------------
        v_mode, c_mode = "ok", "ok"
        if fk == "V":
            v_mode = fault["mode"]
        if fk == "P":
            c_mode = fault["mode"] if fault["mode"] != "vanish" else "ok"
            if fault["mode"] == "vanish":
                v_mode = "vanish"
        if op.get("stray") and c_mode == "ok":
            c_mode = "stray"
        sb.behaviour(v_mode=v_mode, c_mode=c_mode, res=op.get("res", 0), die=fault.get("die", "exit1"))
        kwargs = {}
        duck = None
        restore_path = None
        construct_error = None
        if op["kind"] != "write_rtf":
            c = op["converter"]
            try:
                if fk == "V" and fault["mode"] == "missing":
                    restore_path = os.environ["PATH"]
                    os.environ["PATH"] = "/nonexistent-bin"
                if c == "explicit" or (c == "reuse" and reused_converter[0] is None) or (fk == "P" and fault["mode"] == "vanish"):
                    kwargs["converter"] = conv_mod.LibreOfficeConverter(executable_path=sb.soffice)
                    if c == "reuse":
                        reused_converter[0] = kwargs["converter"]
                elif c == "reuse":
                    kwargs["converter"] = reused_converter[0]
                elif c == "duck_ok":
                    duck = DuckConverter("ok", sb.seq)
                    kwargs["converter"] = duck
                elif c == "duck_bad":
                    duck = DuckConverter(fault["mode"], sb.seq)
                    kwargs["converter"] = duck
            except BaseException as e:  # noqa: BLE001
                construct_error = type(e).__name__
        if fk == "P" and fault.get("die") == "stall" and kwargs.get("converter") is not None:
            # a hung process only "fails" if someone is watching the clock: a converter that exposes a numeric
            # time limit gets a short one (the pinned converter has none and simply waits for the exit status)
            for attr in ("timeout", "time_limit", "conversion_timeout"):
                if isinstance(getattr(kwargs["converter"], attr, None), (int, float)):
                    try:
                        setattr(kwargs["converter"], attr, 1.0)
                    except Exception:  # noqa: BLE001
                        pass
        # --- E3 natural failures ----------------------------------------------
        undo = []
        t_fired = [0]
        if fk == "T":
            # the intermediate file cannot be written (disk full under TMPDIR): a short write, then ENOSPC
            import pathlib

            orig_wt = pathlib.Path.write_text

            def failing_write_text(self, *a, _orig=orig_wt, **k):
                if str(self).startswith(sb.tmp + os.sep):
                    t_fired[0] += 1
                    if t_fired[0] >= fault.get("n", 1):
                        with open(self, "w") as fh:
                            fh.write("PARTIAL")
                        raise OSError(errno.ENOSPC, "No space left on device")
                return _orig(self, *a, **k)

            pathlib.Path.write_text = failing_write_text
            undo.append(lambda: setattr(pathlib.Path, "write_text", orig_wt))
        if fk == "E3":
            undo = _arm_e3(fault, doc, sb)
            ev["e3_armed"] = bool(undo)
        # --- tracer -------------------------------------------------------------
        inject = None
        if fk == "E":
            k = fault.get("k")
            if k is None:
                base = arg.get("phase_counts", {}).get(f"{op['kind']}|{op['doc']}|{fault['phase']}|{fault.get('mode', 'call')}", 0)
                k = 1 + int(fault["u"] * base) if base else None
            if k is not None:
                inject = {"phase": fault["phase"], "k": k, "exc": fault["exc"], "mode": fault.get("mode", "call"),
                          "site": fault.get("site"), "event": fault.get("event", "call")}
            ev["k"] = k
        tr = PhaseTracer(inject, collect, convert_file)
        before = sb.snapshot()
        tmp_before = _tmp_listing(sb)
        outcome = None
        del captured[:]
        old = sys.gettrace()
        sys.settrace(tr)
        try:
            try:
                getattr(doc, op["kind"])(targ_arg, **kwargs)
                outcome = {"k": "returned"}
            except BaseException as e:  # noqa: BLE001
                outcome = {"k": "raised", "type": type(e).__name__, "msg": str(e)[:160]}
        finally:
            sys.settrace(old)
        for u in undo:
            try:
                u()
            except Exception:
                pass
        if restore_path is not None:
            os.environ["PATH"] = restore_path
        after = sb.snapshot()
        ev["outcome"] = outcome
        ev["construct_error"] = construct_error
        ev["t_fired"] = fk == "T" and t_fired[0] >= fault.get("n", 1)
        ev["fired"] = tr.fired
        ev["phase_counts"] = dict(tr.counts)
        ev["phase_counts_ev"] = dict(tr.counts_ev)
        ev["skipped_cleanup"] = tr.skipped_cleanup
        enc = list(captured) or list(tr.encoded)
        ev["encoded_via"] = "call" if enc else None
        if not enc and outcome["k"] == "returned" and op["kind"] == "write_rtf":
            # the export did not go through the public rtf_encode(): fall back to
            # encoding once more ourselves (equal by C14 on a tree where that holds)
            try:
                enc = [orig_encode(doc)]
                ev["encoded_via"] = "post"
            except BaseException:  # noqa: BLE001
                enc = []
        ev["encoded_sha"] = [hashlib.sha256(s.encode("utf-8", "surrogatepass")).hexdigest() for s in enc]
        ev["encoded_n"] = len(enc)
        ev["natural_ok"] = calib_ok.get(f"{op['kind']}|{op['doc']}")
        ev["stub_log"] = sb.log()
        ev["duck"] = {"mode": duck.mode, "called": duck.called, "wrote": duck.wrote} if duck else None
        ev["tmp_before"] = tmp_before
        ev["tmp_after"] = _tmp_listing(sb)
        ev["diff"] = snap_diff(before, after)
        tk = ev["target_key"]
        ev["target_before"] = before.get(tk)
        ev["target_after"] = after.get(tk)
        if ev.get("link_key") and ev["target_after"] is not None and ev["target_after"][0] == "l":
            ev["target_after_eff"] = after.get(ev["link_key"])  # what reading the requested path yields
        ev["xdev"] = sb.xdev_effective
        if collect:
            ev["sites"] = tr.sites
        ev["steps"] = tr.steps
        tdir = tk.rsplit("/", 1)[0]
        ev["dir_after"] = {k: list(val) for k, val in after.items() if k.startswith(tdir + "/")}
        log.append(ev)
    if orig_encode is not None:
        doc_cls.rtf_encode = orig_encode
    return {"log": log, "n_main": n_main, "xdev": sb.xdev_effective}


def _arm_e3(fault, doc, sb):
    """Arrange a *natural* failure of the next encode; returns undo callbacks."""
    what = fault["what"]
    undo = []
    if what in ("fig_deleted", "fig_isdir"):
        fig = getattr(doc, "rtf_figure", None)
        paths = list(getattr(fig, "figures", None) or []) if fig is not None else []
        if not paths:
            return []
        p = str(paths[0])
        bak = p + ".bak"
        os.rename(p, bak)
        if what == "fig_isdir":
            os.mkdir(p)

            def restore():
                os.rmdir(p)
                os.rename(bak, p)
        else:
            def restore():
                os.rename(bak, p)
        undo.append(restore)
    elif what == "font":
        try:
            import rtflite.strwidth as sw
        except Exception:
            return []
        real = getattr(sw, "ImageFont", None)
        if real is None:
            return []
        n = [0]
        limit = fault.get("n", 1)

        class Proxy:
            def __getattr__(self, name):
                return getattr(real, name)

            def truetype(self, *a, **k):
                n[0] += 1
                if n[0] >= limit:
                    raise OSError("cannot open resource")
                return real.truetype(*a, **k)

        sw.ImageFont = Proxy()
        undo.append(lambda: setattr(sw, "ImageFont", real))
    return undo


def snap_diff(before: dict, after: dict) -> dict:
    added = sorted(k for k in after if k not in before)
    removed = sorted(k for k in before if k not in after)
    changed = sorted(k for k in after if k in before and after[k] != before[k])
    return {"added": [[k, list(after[k])] for k in added], "removed": removed,
            "changed": [[k, list(before[k]), list(after[k])] for k in changed]}


# --------------------------------------------------------------------------
# judging (pure)
# --------------------------------------------------------------------------


def _ancestors(key: str) -> set:
    parts = key.split("/")
    return {"/".join(parts[:i]) for i in range(1, len(parts))}


def expected_failure(ev) -> bool:
    """Did a fault fire that means encoding or conversion failed?"""
    f = ev["fault"]
    fk = f["kind"]
    if ev.get("construct_error"):
        return True
    if fk == "V":
        return True
    if fk == "T":
        return bool(ev.get("t_fired"))
    if fk == "P":
        return f["mode"] in C_MODES_FAIL and f["mode"] not in C_MODES_MAY
    if fk == "M":
        # a str path or a one-element list is "malformed" for today's type check, but an
        # implementation that accepts them and places the output correctly also satisfies
        # the property: either outcome is accepted (and then held to its own oracle)
        return f["mode"] not in ("ret_str", "ret_list")
    return False


def may_fail(ev) -> bool:
    f = ev["fault"]
    return (f["kind"] == "M" and f["mode"] in ("ret_str", "ret_list")) or \
        (f["kind"] == "P" and f["mode"] in C_MODES_MAY)


def judge_event(ev) -> list:
    """Violations of one export (list of dicts)."""
    if ev.get("skipped"):
        return []
    out = []
    kind = ev["kind"]
    oc = ev["outcome"]
    tk = ev["target_key"]
    diff = ev["diff"]
    added = {k: v for k, v in diff["added"]}
    changed = {k: (b, a) for k, b, a in diff["changed"]}
    removed = set(diff["removed"])
    fk = ev["fault"]["kind"]
    real_fault = (bool(ev.get("fired")) or expected_failure(ev) or may_fail(ev) or (fk == "E3" and ev.get("e3_armed"))
                  or ev.get("natural_ok") is False)
    fired_any = real_fault or bool(ev.get("target_is_dir"))

    def v(cls, **kw):
        d = {"class": cls, "kind": kind, "fault": fk, "fault_mode": ev["fault"].get("mode") or ev["fault"].get("what")
             or ev["fault"].get("phase"), "target_pre_state": ev["target_pre_state"], "outcome": oc["k"],
             "recovery": ev["recovery"], "converter": ev["converter"]}
        d.update(kw)
        out.append(d)

    tmp_new = [k for k in list(added) + list(changed) if k == "tmp" or k.startswith("tmp/")]
    tmp_new = [k for k in tmp_new if k != "tmp"]
    gone = sorted(set(ev["tmp_before"]) - set(ev["tmp_after"]))
    tmp_removed = [k for k in removed if k.startswith("tmp/")]
    tmp_changed = [k for k in changed if k.startswith("tmp/")]
    if gone or tmp_removed or tmp_changed:
        # something that was in the temp directory BEFORE the export (not ours) was removed or modified
        v("foreign_temp_content_touched", detail={"gone": gone[:5], "removed": tmp_removed[:5], "changed": tmp_changed[:5]})
    if set(ev["tmp_after"]) - set(ev["tmp_before"]) or [k for k in added if k.startswith("tmp/")]:
        v("temp_debris", detail={"before": ev["tmp_before"][:5], "after": ev["tmp_after"][:8]})

    if oc["k"] == "raised" and ev.get("target_is_dir") and not real_fault:
        # neither encoding nor conversion failed: the export could not be PLACED because a directory sits at the
        # requested path - a failure of the final placement, which the property's failure clause does not cover (§9)
        return out
    if oc["k"] == "raised":
        if not fired_any and ev.get("construct_error") is None:
            # nothing was injected and nothing natural was arranged: the export must work
            v("raised_without_fault", detail=oc)
        # (a) target unchanged / still absent
        if ev["target_before"] != ev["target_after"]:
            v("target_changed_on_failure" if ev["target_before"] is not None else "partial_target_created",
              detail={"before": ev["target_before"], "after": ev["target_after"]})
        # (c) nothing else changed except new empty ancestor directories of the target
        anc = _ancestors(tk)
        for k, val in added.items():
            if k == tk or k.startswith("tmp/"):
                continue
            if val[0] == "d" and k in anc:
                continue
            v("stray_output_on_failure", detail={"path": k, "what": val})
            break
        for k in changed:
            if k == tk or k.startswith("tmp/"):
                continue
            v("other_file_changed_on_failure", detail={"path": k})
            break
        for k in removed:
            if k.startswith("tmp/"):
                continue
            v("file_removed_on_failure", detail={"path": k})
            break
    else:
        if expected_failure(ev) and not ev.get("construct_error"):
            v("failure_swallowed", detail={"fault": ev["fault"]})
        if ev.get("target_is_dir"):
            # a directory sat at the requested path and the export returned normally: the property does not
            # say where the output belongs then, so only the temporary-file rules above apply
            return out
        # success: where did the output go?  (a target that is still a symbolic link is read through the link)
        ta = ev.get("target_after_eff") or ev["target_after"]
        anc = _ancestors(tk)
        allowed_new = set(anc) | {tk}
        if ev.get("link_key"):
            allowed_new.add(ev["link_key"])
        if kind == "write_rtf":
            if not ev["encoded_sha"]:
                v("no_encode_observed")
            elif ta is None or ta[0] != "f" or ta[2] != ev["encoded_sha"][-1]:
                v("stored_bytes_differ_from_rtf_encode", detail={"target": ta, "encoded": ev["encoded_sha"][-1][:16]})
        else:
            wrote = []
            if ev.get("duck") and ev["duck"]["wrote"]:
                wrote = [(p, s) for p, s in ev["duck"]["wrote"]]
            else:
                for line in ev["stub_log"]:
                    if line.startswith("WROTE "):
                        _, sha, path = line.split(" ", 2)
                        wrote.append((path, sha))
            main = [(p, s) for p, s in wrote if "_files/" not in p and not os.path.basename(p).startswith(".~lock")]
            res = [(p, s) for p, s in wrote if "_files/" in p]
            if not main:
                if not expected_failure(ev):
                    v("returned_without_converter_output")
            else:
                mp, ms = main[-1]
                if ta is None or ta[0] != "f" or ta[2] != ms:
                    v("target_is_not_converter_output", detail={"target": ta, "converter_sha": ms[:16]})
                # resource directory: <target dir>/<converted name>_files, exactly what the stub wrote
                if res:
                    conv_name = os.path.basename(mp)
                    res_root_src = os.path.join(os.path.dirname(mp), conv_name + "_files")
                    tdir = tk.rsplit("/", 1)[0]
                    res_key = f"{tdir}/{conv_name}_files"
                    exp = {res_key: ["d"]}
                    for p, s in res:
                        rel = os.path.relpath(p, res_root_src)
                        parts = rel.split(os.sep)
                        for j in range(1, len(parts)):
                            exp[res_key + "/" + "/".join(parts[:j])] = ["d"]
                        exp[res_key + "/" + rel.replace(os.sep, "/")] = ["f", s]
                    allowed_new |= set(exp)
                    ra = ev.get("dir_after", {})
                    want = {k: (val[0],) + ((val[1],) if len(val) > 1 else ()) for k, val in exp.items()}
                    have = {k: (val[0],) + ((val[2],) if val[0] == "f" else ()) for k, val in ra.items()
                            if k == res_key or k.startswith(res_key + "/")}
                    if want != have:
                        v("resource_dir_mismatch", detail={"missing": sorted(set(want) - set(have))[:4],
                                                           "unexpected": sorted(set(have) - set(want))[:4],
                                                           "differs": sorted(k for k in want if k in have and want[k] != have[k])[:4]})
                    allowed_new |= set(have)
        for k, val in added.items():
            if k in allowed_new or k.startswith("tmp/"):
                continue
            v("stray_output_on_success", detail={"path": k, "what": val})
            break
        for k in changed:
            if k in allowed_new or k.startswith("tmp/"):
                continue
            v("other_file_changed_on_success", detail={"path": k})
            break
        for k in removed:
            if k in allowed_new or k.startswith("tmp/") or any(k.startswith(a + "/") for a in allowed_new if a.endswith("_files")):
                continue
            v("file_removed_on_success", detail={"path": k})
            break
    return out


def judge(plan: dict, res: dict) -> list:
    out = []
    for ev in res["log"]:
        for v in judge_event(ev):
            v["at"] = ev["i"]
            out.append(v)
    return out


def signature(v: dict) -> dict:
    return {"class": v["class"], "kind": v["kind"], "fault": v["fault"], "fault_mode": v.get("fault_mode"),
            "target_pre_state": v["target_pre_state"], "recovery": v["recovery"]}


# --------------------------------------------------------------------------
# calibration, running, minimising, replay
# --------------------------------------------------------------------------


def calibration_plan(recipe: dict) -> dict:
    ops = []
    for kind in KINDS:
        ops.append({"kind": kind, "doc": 0, "fault": {"kind": "none"},
                    "target": {"name": "cal" + SUFFIX[kind], "missing_parents": 0, "style": "str", "pre": "absent"},
                    "converter": "default" if kind != "write_rtf" else "none", "res": 1, "stray": False})
    return {"recipes": [recipe], "ops": ops, "xdev": False, "recovery": False}


class Calib:
    """Per-recipe fault-free traced exports: boundary counts per phase and the
    set of (phase, event, site) with instance counts."""

    def __init__(self, base_dir: str):
        self.base = base_dir
        self.cache: dict = {}
        self.n = 0

    def sb_root(self) -> str:
        self.n += 1
        return tempfile.mkdtemp(prefix="sb_", dir=self.base)

    def get(self, recipe: dict) -> dict:
        h = R.recipe_hash(recipe)
        if h in self.cache:
            return self.cache[h]
        res = core.run_in_child(exec_faults, {"plan": calibration_plan(recipe), "sb_root": self.sb_root(),
                                              "collect_sites": True})
        out = {"counts": {}, "sites": {}, "ok": {}}
        for ev in res["log"]:
            if ev.get("skipped"):
                continue
            kind = ev["kind"]
            out["ok"][kind] = ev["outcome"]["k"] == "returned"
            ce = ev["phase_counts_ev"]
            for ph in ("encode", "convert"):
                out["counts"][f"{kind}|{ph}|call"] = ce[f"{ph}|call"]
                out["counts"][f"{kind}|{ph}|callret"] = ce[f"{ph}|call"] + ce[f"{ph}|return"]
            out["sites"][kind] = ev.get("sites", {})
        self.cache[h] = out
        return out

    def ok_for(self, plan: dict) -> dict:
        d = {}
        for di, r in enumerate(plan["recipes"]):
            for kind, ok in self.get(r)["ok"].items():
                d[f"{kind}|{di}"] = ok
        return d

    def phase_counts_for(self, plan: dict) -> dict:
        pc = {}
        for di, r in enumerate(plan["recipes"]):
            c = self.get(r)["counts"]
            for k, n in c.items():
                kind, ph, mode = k.split("|")
                pc[f"{kind}|{di}|{ph}|{mode}"] = n
        return pc


def run_plan(plan: dict, calib: Calib, collect=False) -> dict:
    return core.run_in_child(exec_faults, {"plan": plan, "sb_root": calib.sb_root(),
                                           "phase_counts": calib.phase_counts_for(plan),
                                           "calib_ok": calib.ok_for(plan), "collect_sites": collect})


def freeze(plan: dict, res: dict) -> dict:
    import json

    p = json.loads(json.dumps(plan))
    for ev in res["log"]:
        if ev["i"] < len(p["ops"]) and ev.get("k") is not None and p["ops"][ev["i"]].get("fault", {}).get("kind") == "E":
            p["ops"][ev["i"]]["fault"]["k"] = ev["k"]
    return p


def minimise(plan: dict, calib: Calib, cls: str, at: int, budget_n=60) -> dict:
    budget = [budget_n if not os.environ.get("VERIF_STOP_AFTER_FIRST") else 2]  # regression tooling: no shrinking
    cur = dict(plan)

    def test(ops):
        cand = dict(cur, ops=ops, recovery=False)
        try:
            res = run_plan(cand, calib)
        except HarnessError:
            return False
        return any(v["class"] == cls for v in judge(cand, res))

    ops = list(plan["ops"][: at + 1]) if at < len(plan["ops"]) else list(plan["ops"])
    budget[0] -= 1
    if at < len(plan["ops"]) and test(ops):
        cur["ops"] = ops
        cur["recovery"] = False
        if len(ops) > 1:
            cur["ops"] = core.ddmin(ops, test, budget)
    return cur


def replay_worker(arg) -> dict:
    from . import boot

    boot.bootstrap()
    plan = arg["plan"]
    base = tempfile.mkdtemp(prefix="vreplay18")
    try:
        calib = Calib(base)
        res = run_plan(plan, calib)
        vs = judge(plan, res)
        return {"violations": vs, "signatures": [signature(v) for v in vs], "log_digest": run_digest(res)}
    finally:
        shutil.rmtree(base, ignore_errors=True)


def run_digest(res: dict) -> str:
    slim = []
    for ev in res["log"]:
        e = {k: v for k, v in ev.items() if k not in ("sites", "tmp_before", "tmp_after", "dir_after", "stub_log",
                                                      "diff", "duck", "target_key", "xdev")}
        # temp names are random by design of tempfile; keep only their counts / shapes
        if "outcome" in e:
            e["outcome"] = {k: v for k, v in e["outcome"].items() if k != "msg"}  # messages quote temp paths
        e["tmp_n"] = [len(ev.get("tmp_before", [])), len(ev.get("tmp_after", []))]
        e["diff_shape"] = {"added": [k for k, _ in ev["diff"]["added"] if not k.startswith("tmp/")],
                           "removed": [k for k in ev["diff"]["removed"] if not k.startswith("tmp/")],
                           "changed": [k for k, _, _ in ev["diff"]["changed"] if not k.startswith("tmp/")]} if "diff" in ev else None
        e["stub"] = [l.split(" ")[0:2] for l in ev.get("stub_log", [])]
        slim.append(e)
    return digest(slim)


# --------------------------------------------------------------------------
# jobs
# --------------------------------------------------------------------------

_worker_state: dict = {}


def _ws():
    if _worker_state.get("pid") != os.getpid():
        base = tempfile.mkdtemp(prefix="vc18_")
        _worker_state.clear()
        _worker_state.update(pid=os.getpid(), base=base, calib=Calib(base), minimised=0)
    return _worker_state


def job(j: dict) -> dict:
    ws = _ws()
    idx = j["idx"]
    plan = j["plan"] if "plan" in j else gen_plan(core.rng_for(j["root"], PROP, idx))
    t0 = time.monotonic()
    res = run_plan(plan, ws["calib"])
    vs = judge(plan, res)
    out = summarise(plan, res, idx)
    out["site_job"] = j.get("site_job")
    out["ms"] = int((time.monotonic() - t0) * 1000)
    out["violations"] = []
    if vs:
        v = vs[0]
        fplan = freeze(plan, res)
        if ws["minimised"] < 2:
            ws["minimised"] += 1
            try:
                fplan = minimise(fplan, ws["calib"], v["class"], v["at"])
            except Exception:  # noqa: BLE001 - minimisation is optional; the violation is not
                pass
        out["violations"].append({"v": v, "sig": signature(v), "plan": fplan, "seed_idx": idx})
    return out


def summarise(plan, res, idx) -> dict:
    log = [e for e in res["log"] if not e.get("skipped")]
    cells = set()
    nontriv = set()
    fk: dict = {}
    for e in log:
        f = e["fault"]
        kind = f["kind"]
        mode = f.get("mode") or f.get("what") or f.get("phase") or ""
        fired = (bool(e.get("fired")) or (kind in ("V", "P", "M")) or (kind == "E3" and e.get("e3_armed"))
                 or (kind == "T" and e.get("t_fired")))
        key = f"{kind}:{mode}" if kind != "E" else f"E:{f.get('phase')}"
        if e.get("natural_ok") is False:
            nd = fk.setdefault("E3:natural_document_failure", {"configured": 0, "fired": 0, "swallowed": 0})
            nd["configured"] += 1
            nd["fired"] += 1
        d = fk.setdefault(key, {"configured": 0, "fired": 0, "swallowed": 0})
        if kind != "none":
            d["configured"] += 1
            if fired:
                d["fired"] += 1
                if e["outcome"]["k"] == "returned":
                    d["swallowed"] += 1
        phase = (e["fired"] or {}).get("phase") if e.get("fired") else (
            "construct" if kind == "V" else ("convert" if kind in ("P", "M", "T") else ("encode" if kind == "E3" else "-")))
        cells.add(f"{e['target_pre_state']}|{e['kind']}|{phase if fired else 'nofault'}")
        if fired or e["target_pre_state"] == "exists":
            site = (e["fired"] or {}).get("site") if e.get("fired") else mode
            inst = "first" if (e.get("fired") or {}).get("n") == 1 else "later"
            nontriv.add(digest((e["kind"], key, site, inst, e["target_pre_state"])))
    probes = {
        "fault_after_converter_output_existed": sum(
            1 for e in log if (e.get("fired") or {}).get("phase") == "convert" and any(l.startswith("WROTE") for l in e["stub_log"])),
        "export_onto_existing_resource_dir": sum(
            1 for e in log if e["kind"] == "write_html" and e["outcome"]["k"] == "returned"
            and any(c[0].endswith("_files") or "_files/" in c[0] for c in e["diff"]["changed"])
            or (e["kind"] == "write_html" and any("_files/" in r for r in e["diff"]["removed"]))),
        "cross_device_runs": 1 if res.get("xdev") else 0,
        "injection_skipped_in_cleanup_region": sum(e.get("skipped_cleanup", 0) for e in log),
    }
    return {
        "idx": idx, "digest": run_digest(res), "exports": len(log),
        "returned": sum(1 for e in log if e["outcome"]["k"] == "returned"),
        "raised": sum(1 for e in log if e["outcome"]["k"] == "raised"),
        "recovery_exports": sum(1 for e in log if e["recovery"]),
        "fault_kinds": fk, "cells": sorted(cells), "nontrivial": sorted(nontriv), "probes": probes,
        "steps": sum(e.get("steps", 0) for e in log),
        "sample": {"ops": [{"kind": o["kind"], "fault": o.get("fault"), "target": o.get("target"),
                            "converter": o.get("converter"), "of_id": o.get("of_id")} for o in plan["ops"]],
                   "outcomes": [e["outcome"] for e in log]} if (idx < 3 or idx % 1000 == 0) else None,
    }


# --------------------------------------------------------------------------
# site-exhaustive fault placement (DESIGN §6 E1/E2)
# --------------------------------------------------------------------------


def site_docs(root: int, n: int, calib=None) -> list:
    rng = core.rng_for(root, PROP, "site-docs")
    want = ["single", "multi", "figure", "single", "single", "multi"]
    docs = []
    for kind in (want * 5)[:n]:
        for _ in range(300):
            t = R.gen_toggles(rng)
            t["small_nrow"] = rng.random() < 0.5
            if kind == "figure":
                t["figure"] = True
            if kind == "multi":
                t["multi"] = True
            pal = R.gen_palette_of_specs(rng, t)
            r = R.gen_recipe(rng, t, pal)
            if r["kind"] != kind:
                continue
            if any(f["cols"][0][2][:3] == ["G1", "G2", "G1"] for f in r.get("dfs", [])):
                continue
            if sum(len(f["cols"][0][2]) for f in r.get("dfs", [])) > 12:
                continue
            if calib is not None and not all(calib.get(r)["ok"].get(k) for k in KINDS):
                continue  # must export fault-free, otherwise there is nothing to place faults in
            docs.append(r)
            break
    return docs


def site_jobs(root: int, docs: list, calib: Calib, instances=("first", "last", "random")) -> tuple:
    jobs = []
    idx = 20_000_000
    total_sites = 0
    for di, r in enumerate(docs):
        c = calib.get(r)
        for kind in KINDS:
            if not c["ok"].get(kind):
                continue  # document does not export fault-free; nothing to place
            for key, count in sorted(c["sites"].get(kind, {}).items()):
                ph, rest = key.split("|", 1)
                ev, site = rest.split("@", 1)
                total_sites += 1
                rng = core.rng_for(root, PROP, "site", di, kind, key)
                ks = {1}
                if "last" in instances:
                    ks.add(count)
                if "random" in instances and count > 2:
                    ks.add(rng.randrange(2, count))
                for k in sorted(ks):
                    tgt = gen_target(rng, kind)
                    conv = "none" if kind == "write_rtf" else rng.choice(["default", "explicit"])
                    fault = {"kind": "E", "phase": ph, "site": site, "event": ev, "k": k,
                             "exc": rng.choice(E_EXCS), "mode": "callret" if ev == "return" else "call"}
                    op = {"kind": kind, "doc": 0, "target": tgt, "fault": fault, "converter": conv,
                          "res": rng.choice([0, 1, 2]) if kind == "write_html" else 0, "stray": False}
                    op["id"] = 0
                    follow = dict(op, fault={"kind": "none"}, target=dict(tgt, pre="earlier"), id=1, dir_id=0)
                    plan = {"recipes": [r], "ops": [op, follow], "xdev": rng.random() < 0.3, "recovery": False}
                    jobs.append({"idx": idx, "plan": plan, "site_job": {"doc": di, "kind": kind, "key": key, "k": k,
                                                                        "count": count}})
                    idx += 1
    return jobs, total_sites


def matrix_jobs(root: int, docs: list) -> list:
    """Every P/M/V fault kind x every target state x every converting export."""
    jobs = []
    idx = 30_000_000
    rng = core.rng_for(root, PROP, "matrix")
    faults = ([{"kind": "T", "mode": "enospc", "n": 1}] + [{"kind": "V", "mode": m} for m in V_MODES_FAIL]
              + [{"kind": "P", "mode": m} for m in C_MODES_FAIL + C_MODES_MAY]
              + [{"kind": "P", "mode": m, "die": d} for m in ("fail_before", "fail_after_partial", "fail_after_complete")
                 for d in DIE_MODES[1:]]
              + [{"kind": "M", "mode": m} for m in DUCK_BAD])
    states = [{"pre": "absent", "missing_parents": 0}, {"pre": "file", "missing_parents": 0},
              {"pre": "empty", "missing_parents": 0},
              {"pre": "absent", "missing_parents": 2}, {"pre": "earlier", "missing_parents": 0}]
    r = docs[0]
    # every exit status a failing converter process can end with, after it has written complete / partial output
    for code in EXIT_CODES:
        for mode, kind in (("fail_after_complete", "write_pdf"), ("fail_after_partial", "write_docx")):
            tgt = {"name": "e" + SUFFIX[kind], "style": "str", "pre": "file", "missing_parents": 0}
            jobs.append({"idx": idx, "plan": {"recipes": [r], "ops": [
                {"kind": kind, "doc": 0, "target": tgt, "fault": {"kind": "P", "mode": mode, "die": f"code{code}"},
                 "converter": "explicit", "res": 0, "stray": False, "id": 0}], "xdev": False, "recovery": False},
                "site_job": None})
            idx += 1
    # write_rtf of documents whose output length sits exactly on / next to a buffer boundary and whose
    # character count differs from its UTF-8 byte count
    for N in (4096, 8192, 65536, 131072, 1048576, 2097152):
        for delta in (-3, -1, 0, 1):
            tgt = {"name": f"sz{N}_{delta}.rtf", "style": "str", "pre": rng.choice(["absent", "file"]),
                   "missing_parents": 0}
            jobs.append({"idx": idx, "plan": {"recipes": [{"kind": "sized", "target_len": N + delta}], "ops": [
                {"kind": "write_rtf", "doc": 0, "target": tgt, "fault": {"kind": "none"}, "converter": "none",
                 "res": 0, "stray": False, "id": 0}], "xdev": False, "recovery": False}, "site_job": None})
            idx += 1
    for kind in ("write_docx", "write_html", "write_pdf"):
        tgt = {"name": "s" + SUFFIX[kind], "style": "str", "pre": "file", "missing_parents": 0}
        jobs.append({"idx": idx, "plan": {"recipes": [r], "ops": [
            {"kind": kind, "doc": 0, "target": tgt, "fault": {"kind": "P", "mode": "fail_after_partial", "die": "stall"},
             "converter": "explicit", "res": 0, "stray": False, "id": 0}], "xdev": False, "recovery": True},
            "site_job": None})
        idx += 1
    for kind in ("write_docx", "write_html", "write_pdf"):
        for f in faults:
            for st in states:
                tgt = {"name": "m" + SUFFIX[kind], "style": rng.choice(["str", "Path", "tilde", "relative"]), **st}
                conv = "duck_bad" if f["kind"] == "M" else ("default" if f["kind"] in ("V", "T") else "explicit")
                ops = []
                if st["pre"] == "earlier":
                    ops.append({"kind": kind, "doc": 0, "target": dict(tgt, pre="absent"), "fault": {"kind": "none"},
                                "converter": "default", "res": 2, "stray": False, "id": 0})
                ops.append({"kind": kind, "doc": 0, "target": tgt, "fault": f, "converter": conv, "res": 1,
                            "stray": False, "id": 1, "dir_id": 0})
                jobs.append({"idx": idx, "plan": {"recipes": [r], "ops": ops, "xdev": rng.random() < 0.3,
                                                  "recovery": True}, "site_job": None})
                idx += 1
    # unusual things at the requested path: a symbolic link to a file kept elsewhere, a directory
    rng2 = core.rng_for(root, PROP, "matrix-special-targets")
    for kind in KINDS:
        fl = [{"kind": "none"},
              {"kind": "E", "phase": "encode", "u": 0.5, "exc": "RuntimeError", "mode": "call", "k": None},
              {"kind": "E", "phase": "encode", "u": 0.98, "exc": "OSError", "mode": "callret", "k": None}]
        if kind != "write_rtf":
            fl += [{"kind": "E", "phase": "convert", "u": 0.9, "exc": "RuntimeError", "mode": "call", "k": None},
                   {"kind": "P", "mode": "fail_after_complete", "die": "exit1"},
                   {"kind": "P", "mode": "fail_before", "die": "code77"},
                   {"kind": "M", "mode": "raise_after_output"}]
        for pre in ("symlink", "dir"):
            for f in fl:
                for xdev in ((False, True) if (pre == "symlink" and kind != "write_rtf") else (False,)):
                    tgt = {"name": "sp" + SUFFIX[kind], "style": rng2.choice(["str", "Path", "relative", "tilde"]),
                           "pre": pre, "missing_parents": 0}
                    conv = "none" if kind == "write_rtf" else ("duck_bad" if f["kind"] == "M" else "explicit")
                    op = {"kind": kind, "doc": 0, "target": tgt, "fault": f, "converter": conv,
                          "res": 1 if kind == "write_html" else 0, "stray": False, "id": 0}
                    # ... and once more to the same place, fault-free
                    follow = dict(op, fault={"kind": "none"}, converter="none" if kind == "write_rtf" else "explicit",
                                  target=dict(tgt, pre="earlier"), id=1, dir_id=0)
                    jobs.append({"idx": idx, "plan": {"recipes": [r], "ops": [op, follow], "xdev": xdev,
                                                      "recovery": True}, "site_job": None})
                    idx += 1
    return jobs


# --------------------------------------------------------------------------
# batch
# --------------------------------------------------------------------------

TIERS = {"quick": {"runs": 1500, "wall": 420.0, "site_docs": 3, "instances": ("first", "last")},
         "thorough": {"runs": 40000, "wall": 3000.0, "site_docs": 12, "instances": ("first", "last", "random")}}


def main(opts) -> int:
    from . import boot, cli

    t0 = time.monotonic()
    boot.bootstrap()
    tier = TIERS[opts.tier]
    runs = opts.runs if opts.runs is not None else tier["runs"]
    wall = opts.wall or tier["wall"]
    root = opts.seed
    base = tempfile.mkdtemp(prefix="vc18main_")
    calib = Calib(base)
    docs = site_docs(root, tier["site_docs"], calib)
    sjobs, total_sites = site_jobs(root, docs, calib, tier["instances"])
    mjobs = matrix_jobs(root, docs)
    seeded = [{"root": root, "idx": i} for i in range(runs)]
    # a wall-cap truncation must not starve either kind: seeded sequences are spread evenly over the site/matrix runs
    jobs = seeded[:16] + core.interleave(sjobs + mjobs, seeded[16:])
    results, truncated = core.pool_map(job, jobs, wall_cap=wall)
    herrs = [f"run {jobs[i].get('idx')}: {r['harness_error'][:600]}" for i, r in sorted(results.items())
             if "harness_error" in r]
    good = [r for _, r in sorted(results.items()) if "harness_error" not in r]
    violations = [v for r in good for v in r["violations"]]

    def confirm(v):
        got = core.run_fresh("sim.faults:replay_worker", {"plan": v["plan"]}, hashseed=0, timeout=300)
        return bool(got["signatures"])

    def body(v):
        return {"property": PROP, "engine": "faults", "signature": v["sig"], "violation": v["v"],
                "plan": v["plan"], "root_seed": root, "seed_idx": v["seed_idx"], "how": "./check replay <this file>"}

    n_new, n_known, rcode = cli.report(PROP, violations, herrs, confirm, body)
    wall_s = time.monotonic() - t0
    if not opts.no_evidence:
        write_evidence(opts, good, jobs, len(results), truncated, sjobs, mjobs, total_sites, docs, tier,
                       n_new, n_known, wall_s, herrs)
    print(f"C18 {opts.tier}: {len(good)} runs ({len(sjobs)} site placements over {total_sites} sites, {len(mjobs)} "
          f"matrix cells, {runs} seeded sequences), {sum(r['exports'] for r in good)} exports, {n_new} new "
          f"violation(s), {n_known} known, {len(herrs)} harness error(s), {wall_s:.1f}s"
          + (" [truncated by wall cap]" if truncated else ""))
    return rcode


def write_evidence(opts, good, jobs, nres, truncated, sjobs, mjobs, total_sites, docs, tier, n_new, n_known, wall_s,
                   herrs):
    from . import boot

    fk: dict = {}
    cells = set()
    nontriv = set()
    probes: dict = {}
    for r in good:
        for k, d in r["fault_kinds"].items():
            t = fk.setdefault(k, {"configured": 0, "fired": 0, "swallowed": 0})
            for kk in t:
                t[kk] += d[kk]
        cells.update(r["cells"])
        nontriv.update(r["nontrivial"])
        for k, v in r["probes"].items():
            probes[k] = probes.get(k, 0) + v
    site_done = [r for r in good if r.get("site_job")]
    sites_hit = {(r["site_job"]["doc"], r["site_job"]["kind"], r["site_job"]["key"]) for r in site_done}
    site_fired = sum(1 for r in site_done if any(d["fired"] for k, d in r["fault_kinds"].items() if k.startswith("E:")))
    cov = {
        "evaluations": len(good),
        "distinct_nontrivial": len(nontriv),
        "rule": ("one evaluation = one pristine process running a sequence of exports (write_rtf/docx/html/pdf) in a "
                 "fresh sandbox on a real file system with a scripted soffice executable, then fault-free recovery "
                 "exports. Fault placement: (1) site-exhaustive - for each listed document and export kind, an "
                 "exception at the first/last(/a random) instance of every library call site and return site seen "
                 "inside the encode and convert phases of the fault-free export; (2) matrix - every converter "
                 "failure mode (version check, process, malformed result) x every target state x every converting "
                 "export; (3) seeded sequences of 1-6 exports with seeded faults. Oracle: file-system snapshots "
                 "before/after every export. An export is non-trivial when a fault fired or the target pre-existed; "
                 "distinct by (export kind, fault kind, site or mode, first/later instance, target state)."),
        "samples": [r["sample"] for r in good if r.get("sample")][:3],
        "exports": sum(r["exports"] for r in good),
        "exports_returned": sum(r["returned"] for r in good),
        "exports_raised": sum(r["raised"] for r in good),
        "recovery_exports_after_faults": sum(r["recovery_exports"] for r in good),
        "runs_per_hour": int(len(good) / wall_s * 3600) if wall_s > 0 else 0,
        "simulated_time": "none (library has no clock); logical steps = traced library boundaries inside exports",
        "steps": sum(r["steps"] for r in good),
        "fault_kinds": fk,
        "site_exhaustive": {"documents": [R.recipe_traits(d) for d in docs], "sites_observed": total_sites,
                            "sites_with_a_placement_run": len(sites_hit), "placements_planned": len(sjobs),
                            "placements_run": len(site_done), "placements_fired": site_fired,
                            "instances": list(tier["instances"]),
                            "complete_for_listed_documents": len(site_done) == len(sjobs)},
        "matrix_cells_planned": len(mjobs),
        "target_state_x_export_x_phase_cells": sorted(cells),
        "probes": probes,
        "exhaustive": False,
        "runs_dispatched": nres, "jobs_planned": len(jobs), "truncated_by_wall_cap": truncated,
        "known_findings_matched": n_known, "harness_errors": len(herrs),
        "real_components": ["rtflite incl. LibreOfficeConverter (from /repo/src)", "subprocess", "tempfile", "shutil",
                            "pathlib", "the file system (tmpfs, and ext4 for cross-device runs)", "pydantic", "polars",
                            "Pillow"],
        "stubbed_components": ["the soffice executable (scripted shell script in the sandbox)",
                               "duck-typed converter objects passed through the public converter= parameter",
                               "Pillow font loader proxy for the n-th-open-fails fault"],
        "source_tree_sha256": boot.source_tree_hash(),
        "workers": core.n_workers(),
    }
    core.write_evidence(PROP, opts.tier, opts.seed, "fault_enumeration", cov, [
        "faults are placed inside the encode and convert phases only (the property's failure clause); failures of the "
        "final placement (write_text, shutil.move), SIGKILL and torn writes are outside the statement and not judged",
        "an injected exception at a library call/return boundary outside cleanup regions models 'the call failed'",
        "the scripted soffice reproduces LibreOffice's naming (<outdir>/<stem>.<fmt>, <name>_files) but not its content",
        "site enumeration is complete only for the listed documents; seeded sequences sample",
    ], wall_s, n_new)

"""placeholder"""

def main(opts):
    print("HARNESS-ERROR not built yet")
    return 2

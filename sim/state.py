"""Abstract process state of the library (DESIGN §4 reach measures).

`s1_digest` : the residual state named in the property anchors (names are used
              for reporting only; a missing name reads "n/a").
`sweep`     : generic, name-free sweep of every module global and class
              attribute under rtflite.* that is a mutable container or an
              instance of an rtflite class -> {entry: digest}.  Informational
              (an "unknown residual state" detector), never an oracle.
"""

from __future__ import annotations

import hashlib
import re
import sys
import types

_ADDR = re.compile(r"0x[0-9a-fA-F]+")


def _stable(obj, depth=0, seen=None) -> str:
    if seen is None:
        seen = set()
    if depth > 5:
        return "<deep>"
    if obj is None or isinstance(obj, (bool, int, float, str, bytes)):
        return repr(obj)
    oid = id(obj)
    if oid in seen:
        return "<cycle>"
    seen = seen | {oid}
    if isinstance(obj, dict):
        items = sorted((_stable(k, depth + 1, seen), _stable(v, depth + 1, seen)) for k, v in obj.items())
        return "{" + ",".join(f"{k}:{v}" for k, v in items) + "}"
    if isinstance(obj, (list, tuple)):
        return "[" + ",".join(_stable(x, depth + 1, seen) for x in obj) + "]"
    if isinstance(obj, (set, frozenset)):
        return "{" + ",".join(sorted(_stable(x, depth + 1, seen) for x in obj)) + "}"
    if isinstance(obj, (types.FunctionType, types.BuiltinFunctionType, types.MethodType, type, types.ModuleType)):
        return f"<{type(obj).__name__} {getattr(obj, '__qualname__', getattr(obj, '__name__', '?'))}>"
    try:
        import pydantic

        if isinstance(obj, pydantic.BaseModel):
            return type(obj).__name__ + _stable(dict(obj.__dict__), depth + 1, seen)
    except Exception:
        pass
    d = getattr(obj, "__dict__", None)
    if isinstance(d, dict):
        return type(obj).__name__ + _stable(d, depth + 1, seen)
    return _ADDR.sub("0x", repr(obj))[:200]


def _h(s: str) -> str:
    return hashlib.sha256(s.encode("utf-8", "replace")).hexdigest()[:12]


def _interesting(v) -> bool:
    if isinstance(v, (dict, list, set, bytearray)):
        return True
    if isinstance(v, (types.FunctionType, types.BuiltinFunctionType, types.ModuleType, type,
                      staticmethod, classmethod, property, types.MethodType)):
        return False
    mod = getattr(type(v), "__module__", "") or ""
    return mod == "rtflite" or mod.startswith("rtflite.")


def sweep() -> dict:
    out = {}
    for mname in sorted(m for m in sys.modules if m == "rtflite" or m.startswith("rtflite.")):
        mod = sys.modules.get(mname)
        if mod is None:
            continue
        for name, v in sorted(vars(mod).items()):
            if name.startswith("__"):
                continue
            if isinstance(v, type):
                if getattr(v, "__module__", None) != mname:
                    continue
                for an, av in sorted(vars(v).items()):
                    if an.startswith("__"):
                        continue
                    if _interesting(av):
                        out[f"{mname}.{name}.{an}"] = _h(_stable(av))
            elif _interesting(v):
                if getattr(type(v), "__module__", "").startswith("rtflite") or isinstance(v, (dict, list, set)):
                    # skip plain re-exports of another module's global: keep the
                    # defining module's entry only when identifiable
                    out[f"{mname}.{name}"] = _h(_stable(v))
    return out


def s1_digest() -> dict:
    """The residual state the property's anchors name (reporting only)."""
    d = {}
    try:
        from rtflite.services.color_service import color_service

        cur = getattr(color_service, "_current_document_colors", "n/a")
        d["colour_ctx"] = sorted(cur) if isinstance(cur, (list, tuple, set)) else cur
    except Exception:
        d["colour_ctx"] = "n/a"
    try:
        from rtflite.pagination.strategies.registry import StrategyRegistry

        d["registry"] = sorted(StrategyRegistry._strategies)
    except Exception:
        d["registry"] = "n/a"
    try:
        from rtflite.core.constants import RTFDefaults

        d["default_colors_cached"] = getattr(RTFDefaults, "_default_colors_cache", None) is not None
    except Exception:
        d["default_colors_cached"] = "n/a"
    return d


def component_dump(obj) -> str:
    return _h(_stable(obj))

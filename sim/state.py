"""Abstract process state of the library (DESIGN §4 reach measures).

`s1_digest` : the residual state named in the property anchors (names are used
              for reporting only; a missing name reads "n/a").
`sweep`     : generic, name-free sweep of every module global and class
              attribute under rtflite.* that is a mutable container or an
              instance of an rtflite class -> {entry: digest}.  Informational
              (an "unknown residual state" detector), never an oracle.
"""

from __future__ import annotations

import hashlib
import re
import sys
import types

_ADDR = re.compile(r"0x[0-9a-fA-F]+")


def _stable(obj, depth=0, seen=None) -> str:
    if seen is None:
        seen = set()
    if depth > 5:
        return "<deep>"
    if obj is None or isinstance(obj, (bool, int, float, str, bytes)):
        return repr(obj)
    oid = id(obj)
    if oid in seen:
        return "<cycle>"
    seen = seen | {oid}
    if isinstance(obj, dict):
        items = sorted((_stable(k, depth + 1, seen), _stable(v, depth + 1, seen)) for k, v in obj.items())
        return "{" + ",".join(f"{k}:{v}" for k, v in items) + "}"
    if isinstance(obj, (list, tuple)):
        return "[" + ",".join(_stable(x, depth + 1, seen) for x in obj) + "]"
    if isinstance(obj, (set, frozenset)):
        return "{" + ",".join(sorted(_stable(x, depth + 1, seen) for x in obj)) + "}"
    if isinstance(obj, (types.FunctionType, types.BuiltinFunctionType, types.MethodType, type, types.ModuleType)):
        return f"<{type(obj).__name__} {getattr(obj, '__qualname__', getattr(obj, '__name__', '?'))}>"
    try:
        import pydantic

        if isinstance(obj, pydantic.BaseModel):
            return type(obj).__name__ + _stable(dict(obj.__dict__), depth + 1, seen)
    except Exception:
        pass
    d = getattr(obj, "__dict__", None)
    if isinstance(d, dict):
        return type(obj).__name__ + _stable(d, depth + 1, seen)
    return _ADDR.sub("0x", repr(obj))[:200]


def _h(s: str) -> str:
    return hashlib.sha256(s.encode("utf-8", "replace")).hexdigest()[:12]


def _interesting(v) -> bool:
    if isinstance(v, (dict, list, set, bytearray)):
        return True
    if isinstance(v, (types.FunctionType, types.BuiltinFunctionType, types.ModuleType, type,
                      staticmethod, classmethod, property, types.MethodType)):
        return False
    mod = getattr(type(v), "__module__", "") or ""
    return mod == "rtflite" or mod.startswith("rtflite.")


def sweep() -> dict:
    out = {}
    for mname in sorted(m for m in sys.modules if m == "rtflite" or m.startswith("rtflite.")):
        mod = sys.modules.get(mname)
        if mod is None:
            continue
        for name, v in sorted(vars(mod).items()):
            if name.startswith("__"):
                continue
            if isinstance(v, type):
                if getattr(v, "__module__", None) != mname:
                    continue
                for an, av in sorted(vars(v).items()):
                    if an.startswith("__"):
                        continue
                    if _interesting(av):
                        out[f"{mname}.{name}.{an}"] = _h(_stable(av))
            elif _interesting(v):
                if getattr(type(v), "__module__", "").startswith("rtflite") or isinstance(v, (dict, list, set)):
                    # skip plain re-exports of another module's global: keep the
                    # defining module's entry only when identifiable
                    out[f"{mname}.{name}"] = _h(_stable(v))
    return out


def external_digest() -> str:
    return _h(repr(external_sig()))


def s1_digest() -> dict:
    """The residual state the property's anchors name (reporting only)."""
    d = {}
    try:
        from rtflite.services.color_service import color_service

        cur = getattr(color_service, "_current_document_colors", "n/a")
        d["colour_ctx"] = sorted(cur) if isinstance(cur, (list, tuple, set)) else cur
    except Exception:
        d["colour_ctx"] = "n/a"
    try:
        from rtflite.pagination.strategies.registry import StrategyRegistry

        d["registry"] = sorted(StrategyRegistry._strategies)
    except Exception:
        d["registry"] = "n/a"
    try:
        from rtflite.core.constants import RTFDefaults

        d["default_colors_cached"] = getattr(RTFDefaults, "_default_colors_cache", None) is not None
    except Exception:
        d["default_colors_cached"] = "n/a"
    return d


def component_dump(obj) -> str:
    return _h(_stable(obj))


# --------------------------------------------------------------------------
# fast shared-state signature (greybox targeting of pre-emption points, C15)
# --------------------------------------------------------------------------

_SMALL = (int, float, bool, type(None))
from collections import deque as _deque  # noqa: E402
from contextvars import ContextVar as _ContextVar  # noqa: E402
from threading import local as _ThreadLocal  # noqa: E402


def external_probe() -> dict:
    """The same probes by name, plus polars' display configuration (C14 targeting signal: which kind of
    process-global state outside the package did an operation leave changed?)."""
    names = ("cwd", "environ", "decimal_prec", "decimal_rounding", "locale", "recursion_limit", "warning_filters",
             "tempfile_tempdir", "polars_string_cache")
    d = dict(zip(names, external_sig()))
    try:
        import polars as pl

        d["polars_config"] = pl.Config.save()
    except Exception:  # noqa: BLE001
        d["polars_config"] = None
    try:
        import os as _os

        um = _os.umask(0)
        _os.umask(um)
        d["umask"] = um
    except Exception:  # noqa: BLE001
        d["umask"] = None
    try:
        import PIL.Image as _I

        d["pillow_registries"] = (len(_I.OPEN), len(_I.SAVE), len(_I.EXTENSION), _I.MAX_IMAGE_PIXELS)
    except Exception:  # noqa: BLE001
        d["pillow_registries"] = None
    return d


_SC_PROBE: list = []


def _string_cache_probe():
    """polars' string-cache flag - unless asking for it warns (deprecated in newer polars): decided once, quietly;
    the probe itself must never touch the warning filters it reports on."""
    import polars as pl

    if not _SC_PROBE:
        import warnings

        with warnings.catch_warnings(record=True) as rec:
            warnings.simplefilter("always")
            try:
                pl.using_string_cache()
                _SC_PROBE.append(not rec)
            except Exception:  # noqa: BLE001
                _SC_PROBE.append(False)
    return pl.using_string_cache() if _SC_PROBE[0] else None


def external_sig():
    """Process-global state outside the package that library code could plausibly
    touch (cheap probes only): cwd, environment, decimal context, locale,
    recursion limit, warning filters, tempfile default, polars string-cache flag."""
    import decimal
    import locale
    import os
    import tempfile
    import warnings

    try:
        cwd = os.getcwd()
    except OSError:
        cwd = None
    ctx = decimal.getcontext()
    try:
        loc = locale.getlocale()
    except Exception:  # noqa: BLE001
        loc = None
    try:
        pl_sc = _string_cache_probe()
    except Exception:  # noqa: BLE001
        pl_sc = None
    return (cwd, hash(frozenset(os.environ.items())), ctx.prec, ctx.rounding, loc, sys.getrecursionlimit(),
            len(warnings.filters), tempfile.tempdir, pl_sc)


class FastSig:
    """Cheap signature of every module global, class attribute and mutable
    function default under rtflite.*; changes when a name is rebound, a small
    container's elements change identity, a container's length changes, or an
    attribute of a module-level rtflite instance (two levels deep) changes.
    Used only to *find* functions that write shared state; never an oracle."""

    def __init__(self):
        self.slots = []
        self.nmods = -1
        self.nmods_raw = -1
        self.sizes = ()
        self._ids = None
        self._deep = None
        self._inst_types = set()
        self._other_types = set()
        external_sig()  # one-time decisions of the probes happen here, before any hook or tracer is installed
        self._rescan()

    def _mods(self):
        return [sys.modules[m] for m in sorted(sys.modules)
                if (m == "rtflite" or m.startswith("rtflite.")) and sys.modules.get(m) is not None]

    def _rescan(self):
        slots = []
        mods = self._mods()
        for mod in mods:
            md = vars(mod)
            mname = mod.__name__
            for name, v in list(md.items()):
                if name.startswith("__"):
                    continue
                if isinstance(v, types.ModuleType):
                    continue
                if isinstance(v, type):
                    if getattr(v, "__module__", None) != mname:
                        continue
                    cd = vars(v)
                    # default objects of pydantic fields are shared by every instance that does not override them
                    mf = cd.get("model_fields") or cd.get("__pydantic_fields__")
                    if isinstance(mf, dict):
                        for fname, finfo in mf.items():
                            dflt = getattr(finfo, "default", None)
                            if isinstance(dflt, (dict, list, set, bytearray)) or \
                                    (getattr(type(dflt), "__module__", "") or "").startswith("rtflite"):
                                slots.append((finfo.__dict__ if hasattr(finfo, "__dict__") else {"default": dflt},
                                              "default") if hasattr(finfo, "__dict__") and "default" in finfo.__dict__
                                             else ({"default": dflt}, "default"))
                    for an, av in list(cd.items()):
                        if an.startswith("__"):
                            continue
                        f = av.__func__ if isinstance(av, (staticmethod, classmethod)) else av
                        if isinstance(f, types.FunctionType):
                            self._func_slots(slots, f)
                            continue
                        if isinstance(av, property):
                            continue
                        slots.append((cd, an))
                elif isinstance(v, types.FunctionType):
                    if getattr(v, "__module__", None) == mname:
                        self._func_slots(slots, v)
                elif isinstance(v, types.BuiltinFunctionType):
                    continue
                else:
                    slots.append((md, name))
        self.slots = slots
        self.sizes = tuple(len(vars(m)) for m in mods)
        self.nmods = len(mods)

    @staticmethod
    def _func_slots(slots, f):
        d = f.__defaults__
        if d:
            for i, x in enumerate(d):
                if isinstance(x, (dict, list, set, bytearray)):
                    slots.append((d, i))
        kd = f.__kwdefaults__
        if kd:
            for k, x in kd.items():
                if isinstance(x, (dict, list, set, bytearray)):
                    slots.append((kd, k))
        if f.__dict__:
            slots.append((f.__dict__, None))

    @staticmethod
    def _shallow(v, depth):
        t = type(v)
        if t in _SMALL:
            return v
        if t is str or t is bytes:
            return v if len(v) <= 64 else (id(v), len(v))
        if t is dict:
            n = len(v)
            if n > 48:
                return (id(v), n)
            if depth <= 0:
                return (id(v), n, tuple(map(id, v.values())))
            return (id(v), n, tuple(FastSig._shallow(x, depth - 1) for x in v.values()))
        if t is list or t is set or t is tuple or t is frozenset or t is bytearray:
            n = len(v)
            if n > 48 or t is bytearray:
                return (id(v), n)
            if depth <= 0:
                return (id(v), n, tuple(map(id, v)))
            return (id(v), n, tuple(FastSig._shallow(x, depth - 1) for x in v))
        mod = getattr(t, "__module__", "") or ""
        if mod.startswith("rtflite"):
            d = getattr(v, "__dict__", None)
            if isinstance(d, dict) and depth > 0:
                return (id(v), FastSig._shallow(d, depth - 1))
        if isinstance(v, (dict, list, set, _deque)):
            # subclasses (OrderedDict, defaultdict, Counter ...) and deques: length, and the order of a small one
            n = len(v)
            if n > 48 or depth <= 0:
                return (id(v), n)
            return (id(v), n, tuple(map(id, v.values() if isinstance(v, dict) else v)))
        if t is _ContextVar:
            # the value the probing thread's context holds (a mutable holder kept there is shared by every
            # context copied from it)
            try:
                cur = v.get()
            except LookupError:
                return (id(v), None)
            return (id(v), FastSig._shallow(cur, depth - 1) if depth > 0 else id(cur))
        if isinstance(v, _ThreadLocal):
            d = getattr(v, "__dict__", None)
            if isinstance(d, dict) and depth > 0:
                return (id(v), FastSig._shallow(d, depth - 1))
        return id(v)

    def sig0(self):
        """Tier 0, cheap enough for EVERY boundary: identity of every slot value plus the length of every
        sized container - catches rebinding and add/remove (also when undone a few boundaries later)."""
        out = []
        for d, k in self.slots:
            try:
                v = d if k is None else d[k]
            except (KeyError, IndexError):
                out.append(None)
                continue
            t = type(v)
            if t is dict or t is list or t is set:
                out.append((id(v), len(v)))
            elif t in self._other_types:
                out.append(id(v))
            elif t in self._inst_types or (getattr(t, "__module__", "") or "").startswith("rtflite") \
                    or self._other_types.add(t):
                # a module-level instance of one of the package's classes: identity and length of what it holds
                self._inst_types.add(t)
                dd = getattr(v, "__dict__", None)
                if isinstance(dd, dict):
                    out.append((id(v), tuple([(id(x), len(x)) if isinstance(x, (dict, list, set, _deque)) else id(x)
                                              for x in dd.values()])))
                else:
                    out.append(id(v))
            else:
                out.append(id(v))
        return hash(tuple(out))

    def sig(self):
        """Two tiers: identities of every slot value (rebinding), then a shallow
        structural signature of the slots holding containers or rtflite instances."""
        mods_n = 0
        sizes = []
        for m in sys.modules:
            if m.startswith("rtflite"):
                mods_n += 1
        if mods_n != self.nmods_raw:
            self._rescan()
            self.nmods_raw = mods_n
            self._deep = None
        try:
            ids = tuple([id(d if k is None else d[k]) for d, k in self.slots])
        except (KeyError, IndexError):
            self._rescan()
            self._deep = None
            ids = tuple([id(d if k is None else d.get(k) if isinstance(d, dict) else None) for d, k in self.slots])
        if ids != self._ids or self._deep is None:
            self._ids = ids
            deep = []
            for d, k in self.slots:
                try:
                    v = d if k is None else d[k]
                except (KeyError, IndexError):
                    continue
                t = type(v)
                if t in (dict, list, set, bytearray) or (getattr(t, "__module__", "") or "").startswith("rtflite") \
                        or t is _ContextVar or isinstance(v, _ThreadLocal):
                    if t in (dict, list, set) and len(v) > 48:
                        deep.append((d, k, 0))
                    else:
                        deep.append((d, k, 2))
            self._deep = deep
        sh = self._shallow
        out = []
        for d, k, depth in self._deep:
            try:
                v = d if k is None else d[k]
            except (KeyError, IndexError):
                out.append(None)
                continue
            out.append(len(v) if depth == 0 else sh(v, depth))
        return hash((ids, tuple(out), external_sig()))

"""Command line of ./check."""

from __future__ import annotations

import argparse
import json
import os
import shutil
import sys
import tempfile
import time
import traceback

from . import core


def batch_root() -> str:
    base = "/dev/shm" if os.path.isdir("/dev/shm") and os.access("/dev/shm", os.W_OK) else None
    root = tempfile.mkdtemp(prefix="rtflite_verif_", dir=base)
    return root


def main(argv) -> int:
    ap = argparse.ArgumentParser(prog="check")
    ap.add_argument("what")
    ap.add_argument("arg", nargs="?")
    ap.add_argument("--tier", default=os.environ.get("VERIF_TIER", "quick"), choices=["quick", "thorough"])
    ap.add_argument("--runs", type=int, default=None)
    ap.add_argument("--workers", type=int, default=None)
    ap.add_argument("--wall", type=float, default=None, help="wall-clock cap in seconds")
    ap.add_argument("--no-evidence", action="store_true")
    ap.add_argument("--seeds", type=int, default=None)
    opts = ap.parse_args(argv)
    if opts.workers:
        os.environ["VERIF_WORKERS"] = str(opts.workers)
    opts.seed = core.root_seed()

    root = batch_root()
    os.environ["TMPDIR"] = root
    tempfile.tempdir = root
    opts.root_dir = root
    rc = 2
    try:
        what = opts.what
        if what in ("C14", "C15", "C18"):
            from . import faults, histories, schedules  # noqa: F401

            eng = {"C14": histories, "C15": schedules, "C18": faults}[what]
            rc = eng.main(opts)
        elif what == "replay":
            from . import replay

            rc = replay.main(opts)
        elif what == "selftest":
            from . import selftest

            rc = selftest.main(opts)
        else:
            print(f"unknown command {what}")
            rc = 2
    except core.HarnessError as e:
        print(f"HARNESS-ERROR {str(e)[:2000]}")
        rc = 2
    except Exception:
        print("HARNESS-ERROR " + traceback.format_exc()[-3000:])
        rc = 2
    finally:
        shutil.rmtree(root, ignore_errors=True)
    return rc


def report(prop: str, violations: list, harness_errors: list, confirm_fn, replay_body_fn) -> tuple:
    """Shared reporting: de-duplicate by signature, match known findings,
    confirm in a fresh interpreter, write replay files, print the lines.

    violations: list of {"sig": dict, "plan": ..., "v": dict, "seed_idx": int}
    Returns (n_new_violations, n_known, exit_code).
    """
    known, _fixed = core.load_known_findings()
    by_sig: dict = {}
    for v in violations:
        by_sig.setdefault(core.cjson(v["sig"]), []).append(v)
    n_new = 0
    n_known = 0
    known_lines = set()
    out_lines = []
    herr = list(harness_errors)
    for key in sorted(by_sig):
        group = by_sig[key]
        first = sorted(group, key=lambda x: x["seed_idx"])[0]
        rec = core.match_known(known, prop, first["sig"])
        if rec is not None:
            n_known += len(group)
            known_lines.add(f"KNOWN-FINDING: property={prop} {rec.get('what', '')} [{len(group)} run(s)]")
            continue
        # confirm in a fresh interpreter before reporting
        try:
            ok = confirm_fn(first)
        except core.HarnessError as e:
            herr.append(f"confirmation of {key} failed: {str(e)[:500]}")
            continue
        if not ok:
            herr.append(f"violation {key} (seed idx {first['seed_idx']}) did not reproduce in a fresh interpreter")
            continue
        body = replay_body_fn(first)
        path = core.write_replay(prop, first["sig"], f"s{core.root_seed()}i{first['seed_idx']}", body)
        n_new += len(group)
        out_lines.append(f"VIOLATION property={prop} replay={path}  # {key} x{len(group)}")
    for line in sorted(known_lines):
        print(line)
    for line in out_lines:
        print(line)
    for h in herr[:10]:
        print("HARNESS-ERROR " + h.replace("\n", " | ")[:1500])
    if n_new:
        return n_new, n_known, 1
    if herr:
        return 0, n_known, 2
    return 0, n_known, 0

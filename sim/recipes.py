"""Document recipes: a JSON value that fully determines a document (DESIGN §3.3).

generate  : seeded, swarm-style (per-run feature toggles, then a palette of
            component specs, then recipes drawn from the palette so that equal
            component specs recur across documents and can be *shared*)
build     : recipe -> RTFDocument, each component fresh or taken from a pool of
            live objects (the sharing topology)
reference : ref(recipe) = outcome of building from all-fresh components in a
            pristine process and encoding once.
"""

from __future__ import annotations

import os
import re
import struct
import zlib

from .core import cjson, digest, sha_text

COLORS = ["red", "blue", "green", "gold", "gray50", "navy", "orchid3", "tomato", "ivory4",
          "darkorange", "black", "white", "firebrick", "cyan4", "purple"]
# names that share one RGB definition, plus a colour whose table index lies between them
ALIAS_FAMILIES = [("gray", "grey", "green"), ("darkgray", "darkgrey", "darkgreen"), ("gray50", "grey50", "green4"),
                  ("lightgray", "lightgrey", "lightgreen")]
TEXTS = ["alpha", "Drug A", "Placebo", "n (%)", "12.5", "a_b", "x^2", "\\alpha", "\\pm 3",
         ">= 5", "café", "β-blocker", "A very long label that needs wrapping in a narrow column",
         "", "{brace}", "semi;colon", "back\\slash", "Total"]
BORDERS = ["single", "double", "", "dashed", "thick"]
FORMATS = ["", "b", "i", "bi", "u"]
JUST = ["l", "c", "r"]


# --------------------------------------------------------------------------
# generation
# --------------------------------------------------------------------------


def gen_toggles(rng) -> dict:
    """Swarm: which features may appear at all in this run."""
    t = {
        "colours": rng.random() < 0.75,
        "n_colours": rng.choice([1, 2, 3, 5]),
        "small_nrow": rng.random() < 0.5,
        "page_by": rng.random() < 0.4,
        "subline_by": rng.random() < 0.25,
        "group_by": rng.random() < 0.4,
        "multi": rng.random() < 0.5,
        "figure": rng.random() < 0.35,
        "footnote": rng.random() < 0.6,
        "source": rng.random() < 0.4,
        "placement": rng.random() < 0.4,
        "headers": rng.choice(["default", "explicit", "mixed", "absent"]),
        "convert": rng.random() < 0.4,
        "failing": rng.random() < 0.5,
        "page_hf": rng.random() < 0.4,
        "widths": rng.random() < 0.6,
        "borders": rng.random() < 0.4,
        "var_cols": rng.random() < 0.7,
    }
    # themed runs: related features have to co-occur across the documents of ONE run for
    # cross-document state (keyed on column names, column indices, image bytes ...) to show
    t["theme"] = rng.choice([None, None, "grouping", "grouping", "figure", "multi"])
    if t["theme"] == "grouping":
        t["page_by"] = t["subline_by"] = t["group_by"] = True
        t["figure"] = False
        t["multi"] = rng.random() < 0.3
        t["failing"] = rng.random() < 0.3
    elif t["theme"] == "figure":
        t["figure"] = True
    elif t["theme"] == "multi":
        t["multi"] = True
    t["palette"] = rng.sample(COLORS, t["n_colours"]) if t["colours"] else []
    if t["palette"] and rng.random() < 0.25:
        t["palette"] = list(rng.choice(ALIAS_FAMILIES)) + t["palette"][:2]
    return t


def _col(rng, t):
    return rng.choice(t["palette"]) if t["palette"] else None


def _h32(*parts) -> int:
    import zlib

    return zlib.crc32(":".join(map(str, parts)).encode())


def gen_frame(rng, t, ncols: int, kind: str) -> dict:
    """kind: plain | grouped | broken (non-contiguous c0 => group_by fails) |
    broken2 (c0 contiguous, c1 non-contiguous inside a c0 group => only a two-level group_by fails)."""
    nrows = rng.choice([1, 2, 3, 5, 8, 13, 21, 34] if t["small_nrow"] else [1, 2, 3, 4, 6, 10])
    if kind == "plain" and rng.random() < 0.03:
        nrows = 0  # an empty table
    cols = []
    for j in range(ncols):
        name = f"c{j}"
        if kind != "plain" and j == 0:
            keys = ["G1", "G2", "G3"]
            if kind == "grouped" and rng.random() < 0.12:
                keys = ["-----"] if rng.random() < 0.5 else ["-----", "G1", "G2"]  # the library's divider value
            if kind == "grouped":
                vals = sorted(rng.choice(keys) for _ in range(nrows))
                if rng.random() < 0.15 and vals:
                    # one whole group has a missing key (still contiguous)
                    drop = rng.choice(vals)
                    vals = [None if v == drop else v for v in vals]
            elif kind == "broken2":
                if nrows < 4:
                    nrows = 4
                vals = ["G1"] * (nrows - 1) + ["G2"]
            else:
                if nrows < 3:
                    nrows = 3
                vals = [keys[i % 2] for i in range(nrows)]  # G1 G2 G1 ... non-contiguous
            cols.append([name, "str", vals])
        elif kind == "broken2" and j == 1:
            vals = [("S0", "S1")[i % 2] for i in range(nrows - 1)] + ["S2"]  # S0 S1 S0 ... inside G1
            cols.append([name, "str", vals])
        elif kind != "plain" and j == 1:
            # second key, contiguous within the first
            vals = []
            prev = None
            cur = 0
            for i in range(nrows):
                k0 = cols[0][2][i]
                if k0 != prev:
                    cur = 0
                    prev = k0
                elif rng.random() < 0.4:
                    cur += 1
                vals.append(f"S{cur}")
            cols.append([name, "str", vals])
        else:
            typ = rng.choice(["str", "str", "str", "int", "float", "bool", "date"])
            if typ == "str":
                pool = TEXTS if t["convert"] else TEXTS[:6]
                vals = [rng.choice(pool) if rng.random() > 0.05 else None for _ in range(nrows)]
                if rng.random() < 0.1:
                    vals = [rng.choice(["-----", "1", "1.0", "True", "0", "None", " ", "NA"]) for _ in range(nrows)]
                if t.get("list_cols") and _h32(j, nrows, ncols, "list") % 3 == 0:
                    # list-valued cells (several terms per subject): their text form is polars' own (no further
                    # draws from the stream: derived from the strings just drawn)
                    if _h32(j, nrows, ncols, "list") % 2 == 0:
                        typ = "list_int"
                        vals = [None if v is None else list(range(1, 1 + (len(v) * 7 + i) % 14)) for i, v in enumerate(vals)]
                    else:
                        typ = "list_str"
                        vals = [None if v is None else
                                [f"{v} - preferred term number {i} with a fairly long description text", "Second"][: 1 + (i % 2) + (len(v) % 2)]
                                for i, v in enumerate(vals)]
            elif typ == "int":
                vals = [rng.randrange(-5, 1000) for _ in range(nrows)]
                if rng.random() < 0.3:
                    vals = [rng.choice([0, 1, -1, 2, 10 ** 12]) for _ in range(nrows)]
            elif typ == "bool":
                vals = [rng.choice([True, False, None]) for _ in range(nrows)]
            elif typ == "date":
                vals = [f"20{rng.randrange(10, 30)}-{rng.randrange(1, 13):02d}-{rng.randrange(1, 29):02d}"
                        for _ in range(nrows)]
            else:
                vals = [round(rng.uniform(-10, 100), 2) for _ in range(nrows)]
                if rng.random() < 0.4:
                    # values that are EQUAL to ints/bools but are not them, and the odd ones
                    vals = [rng.choice([0.0, 1.0, -0.0, 2.0, 1e-12, 1e15, float("inf"), float("nan"), 0.1 + 0.2])
                            for _ in range(nrows)]
            hx = _h32(j, nrows, ncols, typ)
            if t.get("list_cols") and hx % 2 == 1:
                # less common column types (no draws: derived from the values just drawn)
                if typ == "str":
                    typ = "cat" if (hx >> 4) % 2 else "enum"
                elif typ == "date":
                    typ = ("datetime", "duration", "time")[(hx >> 4) % 3]
                    if typ == "duration":
                        vals = [int(v[-2:]) * 3600 + i for i, v in enumerate(vals)]
                    elif typ == "time":
                        vals = [f"{int(v[5:7]) % 24:02d}:{int(v[-2:]) % 60:02d}:{i % 60:02d}" for i, v in enumerate(vals)]
                    else:
                        vals = [v + "T03:04:05" for v in vals]
                elif typ == "float" and all(v == v and abs(v) < 1e9 for v in vals):
                    typ = "decimal" if (hx >> 4) % 2 else "f32"
                    if typ == "decimal":
                        vals = [f"{v:.2f}" for v in vals]
                elif typ == "bool":
                    typ = "null"
                    vals = [None] * nrows
                elif typ == "int":
                    typ = "struct"
                    vals = [{"a": v, "b": f"z{i % 3}"} for i, v in enumerate(vals)]
            cols.append([name, typ, vals])
    if kind == "grouped" and ncols >= 3 and rng.random() < 0.3:
        # same names, another physical order: the key column sits at another index
        order = list(range(ncols))
        rng.shuffle(order)
        cols = [cols[i] for i in order]
    return {"cols": cols}


def gen_body_spec(rng, t, ncols: int | None) -> dict:
    """ncols None => column-count-agnostic spec (may be shared across shapes)."""
    b: dict = {}
    if t["widths"] and rng.random() < 0.5:
        if ncols is None:
            if rng.random() < 0.5:
                b["col_rel_width"] = [rng.choice([1, 2])]
        else:
            b["col_rel_width"] = [rng.choice([1, 2, 3]) for _ in range(ncols)]
    if t["palette"]:
        if rng.random() < 0.6:
            b["text_color"] = _col(rng, t) if rng.random() < 0.5 else [[_col(rng, t) for _ in range(rng.choice([1, 2, 3]))]]
        if rng.random() < 0.3:
            b["text_background_color"] = _col(rng, t)
        if rng.random() < 0.3:
            side = rng.choice(["border_color_left", "border_color_top", "border_color_bottom",
                               "border_color_right", "border_color_first", "border_color_last"])
            b[side] = [[_col(rng, t)]]
    if t["borders"] and rng.random() < 0.5:
        b[rng.choice(["border_top", "border_bottom", "border_first", "border_last"])] = [[rng.choice(BORDERS)]]
    if rng.random() < 0.2:
        b["text_format"] = [[rng.choice(FORMATS)]]
    if rng.random() < 0.2:
        b["text_justification"] = [[rng.choice(JUST) for _ in range(rng.choice([1, 2]))]]
    if rng.random() < 0.15:
        b["text_font_size"] = [[rng.choice([7, 9, 11])]]
    if t["convert"] and rng.random() < 0.3:
        b["text_convert"] = [[rng.random() < 0.5]]
    if rng.random() < 0.15:
        b["as_colheader"] = False
    # rarely used attributes, one or two at a time (value-level diversity)
    if rng.random() < 0.35:
        extras = [("border_width", [[rng.choice([5, 15, 30])]]), ("cell_height", [[rng.choice([0.1, 0.15, 0.3])]]),
                  ("cell_justification", [[rng.choice(JUST)]]),
                  ("cell_vertical_justification", [[rng.choice(["top", "center", "bottom"])]]),
                  ("text_indent_first", [[rng.choice([0, 100, 300])]]), ("text_indent_left", [[rng.choice([0, 150])]]),
                  ("text_indent_right", [[rng.choice([0, 150])]]), ("text_space", [[rng.choice([1, 1.5, 2])]]),
                  ("text_space_before", [[rng.choice([0, 15, 60])]]), ("text_space_after", [[rng.choice([0, 15, 60])]]),
                  ("text_hyphenation", [[rng.random() < 0.5]]), ("text_font", [[rng.choice([1, 2, 4, 9])]]),
                  ("last_row", rng.random() < 0.5), ("pageby_header", rng.random() < 0.5),
                  ("border_left", [[rng.choice(BORDERS)]]), ("border_right", [[rng.choice(BORDERS)]])]
        for k, v in rng.sample(extras, rng.choice([1, 2])):
            b[k] = v
    return b


BRACED = ["\\mathbb{R}", "\\mathbb{E}", "\\mathcal{L}", "\\mathcal{N}", "\\mathfrak{g}", "\\mathbb{Q}",
          "\\textbf{x}", "\\mathcal{H}", "\\frac{a}{b}", "\\mathbb{N}", "\\unknowncmd{y}", "\\mathcal{Z}"]


BRACED_FAMILIES = [[b for b in BRACED if b.startswith(f)] for f in ("\\mathbb{", "\\mathcal{")]


def add_braced(recipes: list, salt: int = 0, family: bool = False) -> int:
    """Braced commands (\\name{arg}) appended to texts that already bear a command: members of the same command
    family across documents, some known to the symbol table and some not.  No draws: chosen by a hash of the text."""
    n = 0
    # family mode: every braced command of the plan has the same name and only the argument differs between texts
    pool = BRACED_FAMILIES[salt % len(BRACED_FAMILIES)] if family else BRACED

    def fix(x):
        nonlocal n
        if isinstance(x, str) and "\\" in x and "{" not in x:
            n += 1
            return x + " " + pool[_h32(x, salt) % len(pool)]  # equal texts stay equal within a plan
        if isinstance(x, list):
            return [fix(y) for y in x]
        return x

    for r in recipes:
        if r.get("kind") == "corpus":
            continue
        for comp in ("title", "subline", "page_header", "page_footer", "footnote", "source"):
            c = r.get(comp)
            if isinstance(c, dict) and "text" in c:
                c["text"] = fix(c["text"])
        for f in r.get("dfs") or []:
            for col in f["cols"]:
                if col[1] == "str":
                    col[2] = fix(col[2])
    return n


def gen_text_comp(rng, t, what: str) -> dict:
    c: dict = {}
    n = rng.choice([1, 1, 2])
    pool = TEXTS if t["convert"] else TEXTS[:6]
    if what in ("page_header", "page_footer") and rng.random() < 0.5:
        pass  # default text (page header) / no text
    else:
        texts = [rng.choice(pool) or "t" for _ in range(n)]
        c["text"] = texts if n > 1 or rng.random() < 0.5 else texts[0]
    if t["palette"] and rng.random() < 0.5:
        c["text_color"] = [_col(rng, t)] if rng.random() < 0.5 else _col(rng, t)
    if t["palette"] and rng.random() < 0.15 and what in ("footnote", "source", "title"):
        c["text_background_color"] = [_col(rng, t)]
    if rng.random() < 0.2:
        c["text_format"] = [rng.choice(FORMATS)]
    if what in ("footnote", "source") and rng.random() < 0.4:
        c["as_table"] = rng.random() < 0.5
    if what in ("footnote", "source"):
        # table-style attributes are 2-D
        for k in ("text_color", "text_background_color", "text_format"):
            if k in c and isinstance(c[k], list):
                c[k] = [c[k]]
    if what in ("page_header", "page_footer", "subline", "title") and rng.random() < 0.15:
        c["text_indent_reference"] = rng.choice(["table", "page"])
    if rng.random() < 0.2:
        flat = what not in ("footnote", "source")
        extras = [("text_font_size", rng.choice([7, 9, 12, 14])), ("text_justification", rng.choice(JUST)),
                  ("text_font", rng.choice([1, 3, 9])), ("text_indent_left", rng.choice([0, 200])),
                  ("text_space_before", rng.choice([0, 90, 180])), ("text_hyphenation", rng.random() < 0.5)]
        k, v = rng.choice(extras)
        c[k] = [v] if flat else [[v]]
    return c


def gen_header_spec(rng, t, ncols: int) -> dict:
    h: dict = {}
    pool = TEXTS[:6]
    m = ncols if rng.random() < 0.8 else max(1, ncols - 1)
    h["text"] = [rng.choice(pool) or "h" for _ in range(m)]
    if m != ncols or (t["widths"] and rng.random() < 0.3):
        h["col_rel_width"] = [rng.choice([1, 2]) for _ in range(m)]
    if t["palette"] and rng.random() < 0.4:
        h["text_color"] = [[_col(rng, t)]] if rng.random() < 0.5 else _col(rng, t)
    if t["palette"] and rng.random() < 0.2:
        h["text_background_color"] = [[_col(rng, t)]]
    if t["borders"] and rng.random() < 0.3:
        h["border_bottom"] = [[rng.choice(BORDERS)]]
    return h


def gen_page_spec(rng, t) -> dict:
    p: dict = {}
    if rng.random() < 0.3:
        p["orientation"] = rng.choice(["portrait", "landscape"])
    if t["small_nrow"] and rng.random() < 0.8:
        p["nrow"] = rng.choice([4, 5, 6, 8, 12])
    if t["borders"] and rng.random() < 0.4:
        p[rng.choice(["border_first", "border_last"])] = rng.choice(["single", "double", ""])
    if t["placement"]:
        for k in ("page_title", "page_footnote", "page_source"):
            if rng.random() < 0.5:
                p[k] = rng.choice(["first", "last", "all"])
    if rng.random() < 0.1:
        p["col_width"] = rng.choice([5.0, 6.5])
    if rng.random() < 0.1:
        p["margin"] = rng.choice([[1.0, 1.0, 1.5, 1.0, 1.0, 0.5], [0.5, 0.5, 1.0, 1.0, 0.75, 0.75]])
    if rng.random() < 0.08:
        p["width"], p["height"] = rng.choice([(8.27, 11.69), (11.0, 17.0)])
    if rng.random() < 0.08:
        p["use_color"] = rng.random() < 0.5
    return p


def gen_palette_of_specs(rng, t) -> dict:
    """A small per-run palette of component specs; recipes draw from it so that
    equal specs recur and can be shared as one live object."""
    ncols_choices = [2, 3, 4] if t["var_cols"] else [rng.choice([1, 2, 3, 4])]
    if t["var_cols"] and rng.random() < 0.2:
        ncols_choices = [1, 2, 3]
    pal = {
        "ncols": ncols_choices,
        "page": [gen_page_spec(rng, t) for _ in range(2)] + [{}],
        "body_any": [gen_body_spec(rng, t, None) for _ in range(2)] + [{}],
        "body_n": {n: [gen_body_spec(rng, t, n) for _ in range(2)] for n in ncols_choices},
        "header_n": {n: [gen_header_spec(rng, t, n) for _ in range(2)] for n in ncols_choices},
        "header_any": [{}] + ([{"text_color": _col(rng, t)}] if t["palette"] else []),
        "title": [gen_text_comp(rng, t, "title") for _ in range(2)],
        "subline": [gen_text_comp(rng, t, "subline")],
        "page_header": [gen_text_comp(rng, t, "page_header") for _ in range(2)],
        "page_footer": [gen_text_comp(rng, t, "page_footer")],
        "footnote": [gen_text_comp(rng, t, "footnote") for _ in range(2)],
        "source": [gen_text_comp(rng, t, "source") for _ in range(2)],
        "frames": {},
        # image files recur across documents of one run (content-keyed caches); some have no readable pixel size
        "figfiles": [{"fmt": rng.choice(["png", "png", "jpeg", "jpeg", "raw", "emf"]),
                      "w": rng.choice([rng.randrange(1, 400), 12000, 65000]),
                      "h": rng.choice([rng.randrange(1, 400), 9000]), "seed": rng.randrange(1000)} for _ in range(3)],
    }
    for fs in pal["figfiles"]:
        # (no draws) some metafiles are genuine ones, some unreadable files have a name that says nothing
        if fs["fmt"] == "emf" and fs["seed"] % 2:
            fs["fmt"] = "emf_real"
        elif fs["fmt"] == "raw" and fs["seed"] % 3 == 0:
            fs["fmt"] = "odd"
    for n in ncols_choices:
        kinds = ["plain", "plain"]
        if t["group_by"] or t["page_by"] or t["subline_by"]:
            kinds.append("grouped")
        if t.get("theme") == "grouping":
            kinds = ["grouped", "grouped", "grouped", "plain"]
        if t["failing"]:
            kinds.append("broken")
            if n >= 3:
                kinds.append("broken2")
        pal["frames"][n] = [(k, gen_frame(rng, t, n, k)) for k in kinds]
        if t.get("theme") == "grouping" and n >= 3:
            # permuted twins: same names, same shape, same values - another physical column order
            twins = []
            for k, f in pal["frames"][n]:
                if k == "grouped" and rng.random() < 0.6:
                    order = list(range(n))
                    rng.shuffle(order)
                    if order != list(range(n)):
                        twins.append((k, {"cols": [f["cols"][i] for i in order]}))
            pal["frames"][n] += twins
    return pal


def _pick_body(rng, t, pal, n, frame_kind, allow_grouping=True, nrows=None):
    spec = dict(rng.choice(pal["body_any"] + pal["body_n"][n] + pal["body_n"][n]))
    if nrows and rng.random() < 0.15:
        # attributes given as a full grid of exactly the table's shape (no broadcasting needed)
        for key, choices in rng.sample([("border_bottom", BORDERS), ("border_top", BORDERS), ("text_format", FORMATS),
                                        ("text_justification", JUST)], rng.choice([1, 2])):
            spec[key] = [[rng.choice(choices) for _ in range(n)] for _ in range(nrows)]
    if allow_grouping and t.get("theme") == "grouping" and frame_kind == "grouped":
        # one grouping role per key column, roles permuted per document
        roles = rng.choice([("page_by",), ("subline_by",), ("group_by",), ("page_by", "subline_by"),
                            ("subline_by", "page_by"), ("page_by", "group_by"), ("group_by", "page_by"),
                            ("subline_by", "group_by"), ("page_by", "page_by"), ("group_by", "group_by")])
        cols = ["c0", "c1"] if n >= 3 else ["c0"]
        for role, colname in zip(roles, cols):
            spec.setdefault(role, []).append(colname)  # the same role twice = nested keys [outer, inner]
        if "page_by" in spec and rng.random() < 0.4:
            spec["new_page"] = True
            if rng.random() < 0.5:
                spec["pageby_row"] = "first_row"
        return spec
    if allow_grouping and frame_kind in ("grouped", "broken", "broken2"):
        used = set()
        if t["group_by"] or frame_kind in ("broken", "broken2"):
            if rng.random() < 0.8 or frame_kind in ("broken", "broken2"):
                spec["group_by"] = ["c0"] if (frame_kind != "broken2" and (n < 3 or rng.random() < 0.6)) else ["c0", "c1"]
                used.update(spec["group_by"])
        if t["page_by"] and "c0" not in used and rng.random() < 0.7:
            spec["page_by"] = ["c0"]
            used.add("c0")
            if rng.random() < 0.5:
                spec["new_page"] = True
                if rng.random() < 0.4:
                    spec["pageby_row"] = "first_row"
        if t["subline_by"] and n >= 3 and rng.random() < 0.5:
            cand = [c for c in ("c0", "c1") if c not in used]
            if cand:
                spec["subline_by"] = [cand[0]]
    return spec


def gen_recipe(rng, t, pal) -> dict:
    r = rng.random()
    kind = "single"
    if t["figure"] and r < (0.6 if t.get("theme") == "figure" else 0.25):
        kind = "figure"
    elif t["multi"] and r < (0.8 if t.get("theme") == "multi" else 0.6):
        kind = "multi"
    rec: dict = {"kind": kind}
    rec["page"] = dict(rng.choice(pal["page"]))
    for comp, p in (("title", 0.6), ("subline", 0.15), ("page_header", 0.3), ("page_footer", 0.3)):
        on = rng.random() < p and (comp not in ("page_header", "page_footer") or t["page_hf"] or rng.random() < 0.2)
        rec[comp] = dict(rng.choice(pal[comp])) if on else None
    rec["footnote"] = dict(rng.choice(pal["footnote"])) if t["footnote"] and rng.random() < 0.7 else None
    rec["source"] = dict(rng.choice(pal["source"])) if t["source"] and rng.random() < 0.7 else None

    if kind == "figure":
        nfig = rng.choice([1, 1, 2, 3])
        rec["figure"] = {
            "files": [dict(rng.choice(pal["figfiles"])) for _ in range(nfig)],
            "kw": {},
        }
        if rng.random() < 0.6:
            rec["figure"]["kw"]["fig_width"] = (rng.choice([3.0, 5.0, 7.0, 9.5]) if rng.random() < 0.5
                                                else [rng.choice([2.0, 4.0, 7.0, 9.5]) for _ in range(nfig)])
        if rng.random() < 0.4:
            rec["figure"]["kw"]["fig_height"] = (rng.choice([2.0, 3.5, 6.0, 9.0]) if rng.random() < 0.6
                                                 else [rng.choice([2.0, 5.0, 9.0]) for _ in range(nfig)])
        if rng.random() < 0.3:
            rec["figure"]["kw"]["fig_align"] = rng.choice(["left", "center", "right"])
        # figure documents require as_table=False
        for k in ("footnote", "source"):
            if rec[k] is not None:
                rec[k]["as_table"] = False
        rec["dfs"] = []
        rec["bodies"] = []
        rec["headers"] = "default"
        return rec

    nsec = 1 if kind == "single" else rng.choice([2, 2, 3])
    rec["dfs"] = []
    rec["bodies"] = []
    hdrs = []
    for s in range(nsec):
        n = rng.choice(pal["ncols"])
        fk, frame = rng.choice(pal["frames"][n])
        if kind == "multi" and fk == "broken" and rng.random() < 0.7:
            fk, frame = pal["frames"][n][0]
        rec["dfs"].append(frame)
        body = _pick_body(rng, t, pal, n, fk, allow_grouping=True, nrows=len(frame["cols"][0][2]))
        if kind == "multi" and s > 0 and "new_page" not in body and "page_by" in body and rng.random() < 0.3:
            body["new_page"] = True
        rec["bodies"].append(body)
        mode = t["headers"] if t["headers"] != "mixed" else rng.choice(["default", "explicit", "absent"])
        if mode == "explicit":
            nh = rng.choice([1, 1, 2, 3])
            hdrs.append([dict(rng.choice(pal["header_n"][n])) for _ in range(nh)])
        elif mode == "default":
            hdrs.append([dict(rng.choice(pal["header_any"]))])
        else:
            hdrs.append(None)
    if kind == "single":
        h = hdrs[0]
        if h is None:
            rec["headers"] = [] if rng.random() < 0.5 else None
        elif h == [{}] and rng.random() < 0.5:
            rec["headers"] = "default"
        else:
            rec["headers"] = h
    else:
        if all(h is None for h in hdrs):
            rec["headers"] = [] if rng.random() < 0.5 else [[None] for _ in hdrs]
        elif rng.random() < 0.3:
            rec["headers"] = hdrs[0] if hdrs[0] is not None else "default"  # flat list: first section only
        else:
            rec["headers"] = [h if h is not None else [None] for h in hdrs]
    return rec


LABELS = ["Adverse Event Leading To Withdrawal", "Any Treatment Emergent AE", "Patients With At Least One Event",
          "Total Across All Visits And Periods", "Placebo", "Drug A 10 mg", "Laboratory Value Above Upper Limit",
          "Week 12 Last Observation Carried Forward"]


def gen_boundary_recipe(rng, t, pal) -> dict:
    """A paginating table whose widest label measures within a hair of its column width once the page
    width has been calibrated (see calibrate_worker): any perturbation of string-width measurement -
    a cache, another rounding, kerning applied or not - flips line counts and moves page breaks."""
    nrows = rng.choice([14, 18, 24])
    ncols = rng.choice([2, 3])
    labels = rng.sample(LABELS, 4)
    cols = [["c0", "str", [rng.choice(labels) for _ in range(nrows)]]]
    for j in range(1, ncols):
        cols.append([f"c{j}", "str", [str(rng.randrange(0, 500)) for _ in range(nrows)]])
    rel = [rng.choice([3, 4, 5])] + [1] * (ncols - 1)
    rec = {"kind": "single", "dfs": [{"cols": cols}], "bodies": [{"col_rel_width": rel}],
           "page": {"nrow": rng.choice([6, 8, 10]), "orientation": rng.choice(["portrait", "landscape"])},
           "title": dict(rng.choice(pal["title"])) if rng.random() < 0.5 else None, "subline": None,
           "page_header": None, "page_footer": None,
           "footnote": dict(rng.choice(pal["footnote"])) if t["footnote"] and rng.random() < 0.5 else None,
           "source": None, "headers": "default",
           "calib": {"col": 0, "ratio": 1.0 + rng.choice([-1, -1, 1]) * rng.choice([1e-4, 3e-4, 1e-3])}}
    return rec


def calibrate_worker(arg) -> dict:
    """Pristine child: the page width that puts the widest text of the chosen column at
    `ratio` x its column width, measured with the library's own public get_string_width
    (Times, 9 pt - what pagination uses)."""
    from . import boot

    boot.bootstrap()
    import rtflite

    rec = arg["recipe"]
    c = rec["calib"]
    col = rec["dfs"][0]["cols"][c["col"]]
    rel = rec["bodies"][0]["col_rel_width"]
    widest = max(rtflite.get_string_width(str(v), font=1, font_size=9) for v in col[2])
    share = rel[c["col"]] / sum(rel)
    return {"col_width": widest / (c["ratio"] * share), "widest_in": widest}


def resolve_calibration(recipes: list, cache: dict) -> int:
    """Replace every 'calib' request by a concrete page.col_width (in place). Returns how many were resolved."""
    from . import core

    n = 0
    for rec in recipes:
        c = rec.get("calib")
        if not c:
            continue
        try:
            key = cjson([rec["dfs"][0]["cols"][c["col"]], rec["bodies"][0]["col_rel_width"], c])
            if key not in cache:
                cache[key] = core.run_in_child(calibrate_worker, {"recipe": rec})["col_width"]
        except (core.HarnessError, KeyError, IndexError, TypeError):
            rec.pop("calib")  # a derived (e.g. deliberately invalid) recipe that cannot be calibrated: leave as is
            continue
        rec["page"] = dict(rec.get("page") or {}, col_width=cache[key])
        rec["calibrated"] = rec.pop("calib")
        n += 1
    return n


def recipe_hash(recipe: dict) -> str:
    return digest(recipe)


def recipe_traits(recipe: dict) -> dict:
    """Coarse traits used for violation shapes and reporting."""
    if recipe["kind"] == "corpus":
        return {"path": "corpus", "coloured": None, "grouped": None, "ncols": [], "file": recipe["file"]}
    if recipe["kind"] == "sized":
        return {"path": "sized", "coloured": False, "grouped": False, "ncols": [], "target_len": recipe["target_len"]}
    cols = _uses_colour(recipe)
    return {
        "path": recipe["kind"],
        "coloured": cols,
        "grouped": any(("group_by" in b or "page_by" in b or "subline_by" in b) for b in recipe.get("bodies", [])),
        "ncols": [len(f["cols"]) for f in recipe.get("dfs", [])],
    }


def _uses_colour(recipe) -> bool:
    s = cjson(recipe)
    return "_color" in s


# --------------------------------------------------------------------------
# building
# --------------------------------------------------------------------------

_PL_TYPES = {"str": "Utf8", "int": "Int64", "float": "Float64", "bool": "Boolean", "date": "Date"}
_PL_LIST_TYPES = {"list_str": "Utf8", "list_int": "Int64"}


def build_sized(recipe: dict, figdir: str):
    """A figure document whose rtf_encode() output has EXACTLY recipe['target_len'] characters and contains a
    few non-ASCII (Latin-1) characters, so that character count and UTF-8 byte count differ: chunked or
    length-limited writers show at buffer boundaries (4 KiB ... 2 MiB)."""
    import rtflite

    want = recipe["target_len"]
    latin = "Caf\u00e9 cr\u00e8me na\u00efve \u00b5g \u00b0C \u00a9"

    def make(nbytes: int, pad: int):
        p = os.path.join(figdir, f"sized_{want}_{nbytes}.png")
        with open(p, "wb") as fh:
            fh.write(figure_bytes({"fmt": "png", "w": 64, "h": 48, "seed": 5})[:200] + b"\x55" * max(0, nbytes))
        return rtflite.RTFDocument(rtf_figure=rtflite.RTFFigure(figures=[p], fig_width=3.0, fig_height=2.0),
                                   rtf_title=rtflite.RTFTitle(text=[latin + " " * pad], text_convert=[False]))

    n = max(0, int((want - 1200) / 2.026))
    doc = make(n, 0)
    for _ in range(6):
        cur = len(doc.rtf_encode())
        d = want - cur
        if d == 0:
            return doc
        if 0 < d <= 4000:
            doc = make(n, d)
            if len(doc.rtf_encode()) == want:
                return doc
            n -= 20
        else:
            n = max(0, n + int(d / 2.026) - (10 if d > 0 else -10))
        doc = make(n, 0)
    return doc  # best effort: close to the boundary even if not exact


def build_frame(spec: dict):
    import polars as pl

    data = {}
    schema = {}
    import datetime as _dt

    for name, typ, vals in spec["cols"]:
        if typ == "date":
            vals = [None if v is None else _dt.date.fromisoformat(v) for v in vals]
        elif typ == "datetime":
            vals = [None if v is None else _dt.datetime.fromisoformat(v) for v in vals]
        elif typ == "time":
            vals = [None if v is None else _dt.time.fromisoformat(v) for v in vals]
        elif typ == "duration":
            vals = [None if v is None else _dt.timedelta(seconds=v) for v in vals]
        elif typ == "decimal":
            import decimal as _dec

            vals = [None if v is None else _dec.Decimal(v) for v in vals]
        data[name] = vals
        if typ in _PL_LIST_TYPES:
            schema[name] = pl.List(getattr(pl, _PL_LIST_TYPES[typ]))
        elif typ == "cat":
            schema[name] = pl.Categorical
        elif typ == "enum":
            schema[name] = pl.Enum(sorted({v for v in vals if v is not None}))
        elif typ == "datetime":
            schema[name] = pl.Datetime("us")
        elif typ == "time":
            schema[name] = pl.Time
        elif typ == "duration":
            schema[name] = pl.Duration("us")
        elif typ == "decimal":
            schema[name] = pl.Decimal(scale=2)
        elif typ == "null":
            schema[name] = pl.Null
        elif typ == "f32":
            schema[name] = pl.Float32
        elif typ == "struct":
            schema[name] = pl.Struct({"a": pl.Int64, "b": pl.Utf8})
        else:
            schema[name] = getattr(pl, _PL_TYPES[typ])
    return pl.DataFrame(data, schema=schema)


def _norm_cell(x):
    # floats by repr: NaN compares unequal to itself, -0.0 equal to 0.0; dates by ISO text
    if isinstance(x, float):
        return ("f", repr(x))
    if hasattr(x, "isoformat"):
        return x.isoformat()
    if isinstance(x, (list, tuple)):
        return [_norm_cell(y) for y in x]
    if isinstance(x, dict):
        return {k: _norm_cell(v) for k, v in x.items()}
    if x is None or isinstance(x, (str, int, bool)):
        return x
    return (type(x).__name__, str(x))  # Decimal, timedelta, bytes ...


def frame_snapshot(df) -> dict:
    snap = {
        "columns": list(df.columns),
        "dtypes": [str(d) for d in df.dtypes],
        "data": {k: [_norm_cell(x) for x in v] for k, v in df.to_dict(as_series=False).items()},
        "shape": list(df.shape),
    }
    try:
        snap["flags"] = {k: dict(v) for k, v in df.flags.items()}  # per-column sortedness flags
    except Exception:  # noqa: BLE001
        snap["flags"] = None
    extra = sorted(k for k in vars(df) if k not in ("_df",)) if hasattr(df, "__dict__") else []
    snap["extra_attributes"] = extra  # anything attached to the caller's object
    return snap


def expected_frame_snapshot(spec: dict) -> dict:
    """What the caller's frame looks like when nobody has touched it: a snapshot of a freshly built twin."""
    return frame_snapshot(build_frame(spec))


_IMG_BASE: dict = {}


def _real_image(fmt: str) -> bytes:
    """A genuine (tiny) image file written by Pillow, so that any reader - the
    library's own header scan or a real decoder - accepts it."""
    if fmt not in _IMG_BASE:
        import io

        from PIL import Image

        im = Image.new("RGB", (8, 8), (200, 30, 30))
        buf = io.BytesIO()
        im.save(buf, format="PNG" if fmt == "png" else "JPEG")
        _IMG_BASE[fmt] = buf.getvalue()
    return _IMG_BASE[fmt]


def figure_bytes(fs: dict) -> bytes:
    """Image file content: a real image whose *header* announces fs['w'] x fs['h']
    (only headers are ever read for the size), made unique per seed by a trailing
    comment/extra chunk; 'raw'/'emf' have no readable size at all."""
    import random as _r

    rr = _r.Random(fs["seed"])
    noise = bytes(rr.randrange(256) for _ in range(40 + fs["seed"] % 50))
    if fs["fmt"] == "emf_real":
        # a genuine (empty) enhanced metafile: ENHMETAHEADER with bounds fs['w'] x fs['h'] + EMR_EOF; any reader
        # that really parses EMF finds a size here
        w, h = min(fs["w"], 30000), min(fs["h"], 30000)
        hdr = struct.pack("<II4i4iIIIIHHIII2i2i", 1, 88, 0, 0, w, h, 0, 0, int(w * 26.46), int(h * 26.46),
                          0x464D4520, 0x10000, 108 + len(noise) // 4 * 4, 2, 1, 0, 0, 0, 0, 1024, 768, 270, 203)
        return hdr + struct.pack("<IIIII", 14, 20, 0, 20, 20)
    if fs["fmt"] in ("raw", "emf", "odd"):
        return noise  # no signature: pixel size cannot be read (fallback path of the encoder)
    if fs["fmt"] == "png":
        base = bytearray(_real_image("png"))
        # IHDR is the first chunk: length(4) 'IHDR'(4) width(4) height(4) ... crc(4)
        base[16:20] = struct.pack(">I", fs["w"])
        base[20:24] = struct.pack(">I", fs["h"])
        base[29:33] = struct.pack(">I", zlib.crc32(bytes(base[12:29])))
        # unique per seed: a tEXt chunk before IEND
        txt = b"tEXt" + b"seed\x00" + noise.hex().encode()
        chunk = struct.pack(">I", len(txt) - 4) + txt + struct.pack(">I", zlib.crc32(txt))
        iend = bytes(base).rfind(b"IEND") - 4
        return bytes(base[:iend]) + chunk + bytes(base[iend:])
    base = bytearray(_real_image("jpeg"))
    i = 2
    while i < len(base) - 9:
        if base[i] == 0xFF and base[i + 1] in (0xC0, 0xC1, 0xC2):
            base[i + 5:i + 7] = struct.pack(">H", min(fs["h"], 65535))
            base[i + 7:i + 9] = struct.pack(">H", min(fs["w"], 65535))
            break
        if base[i] == 0xFF and base[i + 1] not in (0xD8, 0x01) and not (0xD0 <= base[i + 1] <= 0xD7):
            i += 2 + struct.unpack(">H", bytes(base[i + 2:i + 4]))[0]
        else:
            i += 1
    # unique per seed: a COM segment right after SOI
    com = b"\xff\xfe" + struct.pack(">H", len(noise) + 2) + noise
    return bytes(base[:2]) + com + bytes(base[2:])


def figure_paths(recipe: dict, figdir: str) -> list:
    out = []
    for i, fs in enumerate(recipe["figure"]["files"]):
        ext = {"png": "png", "raw": "png", "emf": "emf", "emf_real": "emf"}.get(fs["fmt"], "jpg")
        name = f"fig_{digest(fs)[:10]}.{ext}"
        if fs["fmt"] == "odd":
            # a name whose extension says nothing (or nothing at all) and content that is no known image
            name = f"fig_{digest(fs)[:10]}" + ("", ".dat", ".bin")[fs["seed"] % 3]
        p = os.path.join(figdir, name)
        if not os.path.exists(p):
            with open(p, "wb") as fh:
                fh.write(figure_bytes(fs))
        out.append(p)
    return out


_COMP_CLASS = {
    "page": "RTFPage", "title": "RTFTitle", "subline": "RTFSubline", "page_header": "RTFPageHeader",
    "page_footer": "RTFPageFooter", "footnote": "RTFFootnote", "source": "RTFSource",
    "body": "RTFBody", "header": "RTFColumnHeader",
}
_COMP_ARG = {
    "page": "rtf_page", "title": "rtf_title", "subline": "rtf_subline", "page_header": "rtf_page_header",
    "page_footer": "rtf_page_footer", "footnote": "rtf_footnote", "source": "rtf_source",
}


class Pool:
    """Live component objects the simulated caller holds: (type, spec) -> object."""

    def __init__(self):
        self.objs: dict = {}
        self.frames: dict = {}
        self.shared_hits = 0
        self.hit_kinds: dict = {}

    def component(self, ctype: str, spec: dict, share: bool):
        import rtflite

        key = ctype + ":" + cjson(spec)
        if share and key in self.objs:
            self.shared_hits += 1
            self.hit_kinds[ctype] = self.hit_kinds.get(ctype, 0) + 1
            return self.objs[key]
        obj = getattr(rtflite, _COMP_CLASS[ctype])(**spec)
        if share:
            self.objs[key] = obj
        return obj

    def frame(self, spec: dict, share: bool):
        key = cjson(spec)
        if share and key in self.frames:
            self.shared_hits += 1
            self.hit_kinds["df"] = self.hit_kinds.get("df", 0) + 1
            return self.frames[key]
        df = build_frame(spec)
        if share:
            self.frames[key] = df
        return df


def build(recipe: dict, pool: Pool | None, share: dict | None, figdir: str):
    """Construct the RTFDocument.  share maps component name -> bool; absent or
    pool None => everything fresh (this is how references are built)."""
    import rtflite

    pool = pool or Pool()
    share = share or {}
    if recipe["kind"] == "sized":
        return build_sized(recipe, figdir), []
    if recipe["kind"] == "corpus":
        from . import corpus

        key = "corpus:" + recipe["file"]
        if share.get("corpus") and key in pool.objs:
            kwargs = pool.objs[key]  # the same component / frame objects in another document
            pool.shared_hits += 1
            pool.hit_kinds["corpus"] = pool.hit_kinds.get("corpus", 0) + 1
        else:
            kwargs = corpus.load_kwargs(recipe)
            if share.get("corpus"):
                pool.objs[key] = kwargs
        frames = [f for f in corpus.frames_of(kwargs) if hasattr(f, "to_dict") and hasattr(f, "schema")]
        return rtflite.RTFDocument(**kwargs), frames
    kw: dict = {}
    for comp, arg in _COMP_ARG.items():
        spec = recipe.get(comp)
        if spec is None:
            if comp == "page":
                continue
            continue
        kw[arg] = pool.component(comp, spec, share.get(comp, False))
    frames = []
    if recipe["kind"] == "figure":
        fkey = "figure:" + cjson(recipe["figure"])
        if share.get("figure") and fkey in pool.objs:
            pool.shared_hits += 1
            pool.hit_kinds["figure"] = pool.hit_kinds.get("figure", 0) + 1
            kw["rtf_figure"] = pool.objs[fkey]
        else:
            kw["rtf_figure"] = rtflite.RTFFigure(figures=figure_paths(recipe, figdir), **recipe["figure"]["kw"])
            if share.get("figure"):
                pool.objs[fkey] = kw["rtf_figure"]
    else:
        frames = [pool.frame(f, share.get("df", False)) for f in recipe["dfs"]]
        bodies = [pool.component("body", b, share.get("body", False)) for b in recipe["bodies"]]
        if recipe["kind"] == "single":
            kw["df"] = frames[0]
            kw["rtf_body"] = bodies[0]
        else:
            kw["df"] = list(frames)
            kw["rtf_body"] = list(bodies)
        h = recipe["headers"]
        if h == "default":
            pass
        elif h is None:
            kw["rtf_column_header"] = []
        else:
            def mk(x):
                if x is None:
                    return None
                if isinstance(x, list):
                    return [mk(y) for y in x]
                return pool.component("header", x, share.get("header", False))
            kw["rtf_column_header"] = mk(h)
    doc = rtflite.RTFDocument(**kw)
    return doc, frames


# --------------------------------------------------------------------------
# outcomes and the reference model
# --------------------------------------------------------------------------


def outcome_of(fn):
    """Run fn() -> ('ok', sha, len, text) or ('raised', type name, message)."""
    try:
        s = fn()
    except BaseException as e:  # noqa: BLE001 - outcome classification
        return {"k": "raised", "type": type(e).__name__, "msg": str(e)[:200]}
    if not isinstance(s, str):
        return {"k": "nonstr", "type": type(s).__name__}
    return {"k": "ok", "sha": sha_text(s), "len": len(s), "_text": s}


def same_outcome(a: dict, b: dict) -> bool:
    if a["k"] != b["k"]:
        return False
    if a["k"] == "ok":
        return a["sha"] == b["sha"] and a["len"] == b["len"]
    return a["type"] == b["type"]


def strip(o: dict) -> dict:
    return {k: v for k, v in o.items() if not k.startswith("_")}


def reference_worker(arg) -> dict:
    """Runs in a pristine child: build from fresh components, encode once.
    Then (after the outcome is recorded) a second, traced encode of a second
    fresh build counts library call boundaries for fault placement."""
    import sys
    import tempfile

    from . import boot

    boot.bootstrap()
    recipe = arg["recipe"]
    apply_ambient(recipe.get("ambient"))
    warm = arg.get("warmup")
    figdir = arg.get("figdir") or tempfile.mkdtemp(prefix="vfig")
    os.makedirs(figdir, exist_ok=True)
    if warm:
        warmup()
    res: dict = {}
    holder = {}

    def construct():
        holder["doc"], holder["frames"] = build(recipe, None, None, figdir)
        return "constructed"

    c = outcome_of(construct)
    if c["k"] != "ok":
        res["construct"] = strip(c)
        res["encode"] = None
        res["ncalls"] = 0
        return res
    res["construct"] = {"k": "ok"}
    e = outcome_of(holder["doc"].rtf_encode)
    text = e.pop("_text", None)
    res["encode"] = strip(e)
    if arg.get("want_text"):
        res["text"] = text
    # boundary count (second encode, outcome irrelevant)
    n = [0]
    nl = [0]
    sites = set()
    want_sites = arg.get("want_sites")
    want_lines = arg.get("want_lines")

    def local(frame, event, a):
        if event == "line":
            nl[0] += 1
        return local

    def tracer(frame, event, a):
        if event == "call" and boot.is_lib_code(frame.f_code):
            n[0] += 1
            if want_sites:
                sites.add(boot.site_of(frame.f_code))
            if want_lines:
                return local
        return None

    try:
        doc2, _ = build(recipe, None, None, figdir)
        sys.settrace(tracer)
        try:
            doc2.rtf_encode()
        finally:
            sys.settrace(None)
    except BaseException:  # noqa: BLE001
        sys.settrace(None)
    res["ncalls"] = n[0]
    res["nlines"] = nl[0] if want_lines else None
    if want_sites:
        res["sites"] = sorted(sites)
    return res


# Ambient process configuration a caller may legitimately have set before using the library (swarm dimension: the
# reference for a recipe that carries an "ambient" entry is computed under the same configuration)
AMBIENTS = [
    {"polars": {"tbl_rows": 100, "fmt_str_lengths": 80, "fmt_table_cell_list_len": 30}},
    {"polars": {"tbl_rows": 4, "fmt_str_lengths": 12}},
    {"polars": {"float_precision": 1, "thousands_separator": ",", "tbl_rows": 50}},
    {"decimal_prec": 5, "recursion": 1500},
    {"warnings": "always", "cwd": True},
    {"polars": {"tbl_rows": 60}, "decimal_prec": 9, "warnings": "always"},
    {"knobs": "small"},
    {"knobs": "small", "polars": {"tbl_rows": 100, "fmt_str_lengths": 80}},
]

_KNOB_GLOBAL = re.compile(r"(?i)((cache|lru|pool|buffer|queue|memo)\w*(size|max|cap|limit|len|entries))"
                          r"|((max|maximum)_?(size|entries|items|len))|capacity")
_KNOB_ATTR = re.compile(r"(?i)^_*(max_?size|capacity|max_?entries|max_?items|max_?len|size_?limit|limit)$")


def shrink_capacities(to: int = 2) -> list:
    """Tuning knobs (DESIGN: "a cache too large for the miss path to run is the classic blind spot"): capacities of
    caches, pools and buffers inside the package are set to a tiny value, so that eviction and overflow paths run
    with small documents.  Recognised by name and value only (>= 8): module-level integers, integer attributes of
    module-level / class-level instances of the package's classes, and functools.lru_cache wrappers (rebuilt with
    maxsize 2).  The pinned tree has none.  References are computed under the same setting."""
    import functools
    import sys
    import types

    import_all()
    done = []
    mods = [(n, m) for n, m in sorted(sys.modules.items()) if m is not None and (n == "rtflite" or n.startswith("rtflite."))]
    replaced: dict = {}

    def shrink_obj(label, obj):
        d = getattr(obj, "__dict__", None)
        if not isinstance(d, dict):
            return
        for a, av in list(d.items()):
            if isinstance(av, int) and not isinstance(av, bool) and av >= 8 and _KNOB_ATTR.match(a):
                try:
                    setattr(obj, a, to)
                    done.append(f"{label}.{a}: {av} -> {to}")
                except Exception:  # noqa: BLE001
                    pass

    def relru(fn):
        if id(fn) in replaced:
            return replaced[id(fn)]
        try:
            params = fn.cache_parameters()
        except Exception:  # noqa: BLE001
            return None
        if params.get("maxsize") is not None and params["maxsize"] <= to:
            return None
        new = functools.lru_cache(maxsize=to, typed=params.get("typed", False))(fn.__wrapped__)
        replaced[id(fn)] = new
        return new

    for n, m in mods:
        for k, v in list(vars(m).items()):
            if k.startswith("__"):
                continue
            if isinstance(v, int) and not isinstance(v, bool) and v >= 8 and _KNOB_GLOBAL.search(k):
                setattr(m, k, to)
                done.append(f"{n}.{k}: {v} -> {to}")
            elif hasattr(v, "cache_info") and hasattr(v, "__wrapped__"):
                new = relru(v)
                if new is not None:
                    setattr(m, k, new)
                    done.append(f"{n}.{k}: lru_cache -> maxsize {to}")
            elif isinstance(v, type):
                if getattr(v, "__module__", None) != n:
                    continue
                for a, av in list(vars(v).items()):
                    if a.startswith("__"):
                        continue
                    if isinstance(av, int) and not isinstance(av, bool) and av >= 8 and _KNOB_ATTR.match(a):
                        setattr(v, a, to)
                        done.append(f"{n}.{k}.{a}: {av} -> {to}")
                    elif hasattr(av, "cache_info") and hasattr(av, "__wrapped__"):
                        new = relru(av)
                        if new is not None:
                            setattr(v, a, new)
                            done.append(f"{n}.{k}.{a}: lru_cache -> maxsize {to}")
                    elif not isinstance(av, (type, types.FunctionType, staticmethod, classmethod, property)) and \
                            (getattr(type(av), "__module__", "") or "").startswith("rtflite"):
                        shrink_obj(f"{n}.{k}.{a}", av)
            elif not isinstance(v, (types.ModuleType, types.FunctionType)) and \
                    (getattr(type(v), "__module__", "") or "").startswith("rtflite"):
                shrink_obj(f"{n}.{k}", v)
    return done


def apply_ambient(amb):
    if not amb:
        return
    if amb.get("polars"):
        import polars as pl

        for k, v in sorted(amb["polars"].items()):
            getattr(pl.Config, "set_" + k)(v)
    if amb.get("decimal_prec"):
        import decimal

        decimal.getcontext().prec = amb["decimal_prec"]
    if amb.get("recursion"):
        import sys

        sys.setrecursionlimit(amb["recursion"])
    if amb.get("warnings"):
        import warnings

        warnings.simplefilter(amb["warnings"])
    if amb.get("cwd"):
        import tempfile

        os.chdir(tempfile.gettempdir())
    if amb.get("knobs") == "small":
        shrink_capacities()


def plan_ambient(recipes):
    for r in recipes:
        if isinstance(r, dict) and r.get("ambient"):
            return r["ambient"]
    return None


def import_all():
    """Cold-process runs (C15): nothing is encoded beforehand, but every module of the package is imported, so
    that no import (and no import lock) happens while a simulated thread holds the baton."""
    import importlib
    import pkgutil

    import rtflite

    for m in pkgutil.walk_packages(rtflite.__path__, "rtflite."):
        try:
            importlib.import_module(m.name)
        except Exception:  # noqa: BLE001 - optional extras
            pass


def warmup():
    """One plain, colourless, successful encode (C15: lazy imports and first-use
    initialisation must not happen while a thread holds the baton)."""
    import polars as pl
    import rtflite

    rtflite.RTFDocument(df=pl.DataFrame({"w": ["x"]})).rtf_encode()

"""C14 engine: encoding is a pure function of the document (histories).

A run = one pristine process executing a seeded history of
construct / encode / encode_abort / drop operations over a pool of documents
that may share component objects and frames.  Oracle: every construct and
every (non-aborted) encode has the outcome of the reference model, i.e. what a
pristine process gives for the same recipe built from fresh components; no
caller frame changes.  See DESIGN §4.
"""

from __future__ import annotations

import gc
import os
import re
import shutil
import tempfile
import time
import zlib

from . import core, recipes as R
from .core import HarnessError, cjson, digest

PROP = "C14"
SHAREABLE = ["page", "title", "subline", "page_header", "page_footer", "footnote", "source",
             "body", "header", "df", "figure", "corpus"]
ABORT_EXCS = ["MemoryError", "KeyboardInterrupt", "ValueError", "InjectedFault"]
MUTABLE = ["title", "footnote", "source", "page_header", "page_footer", "subline"]

# --------------------------------------------------------------------------
# plan generation (pure; no rtflite)
# --------------------------------------------------------------------------


def _corpus_recipe(name: str) -> dict:
    from . import corpus as _corpus

    return _corpus.recipe_for(name)


def gen_plan(rng, corpus_files=None) -> dict:
    if corpus_files is None:
        from . import corpus as _corpus

        corpus_files = _corpus.FILES
    t = R.gen_toggles(rng)
    # list-valued columns in about one run in twelve (a function of the toggles: no draw, older seeds keep their plans)
    t["list_cols"] = zlib.crc32(cjson({k: t[k] for k in sorted(t) if k != "list_cols"}).encode()) % 12 == 0
    pal = R.gen_palette_of_specs(rng, t)
    nrec = rng.randint(2, 6)
    recs = [R.gen_recipe(rng, t, pal) for _ in range(nrec)]
    if rng.random() < 0.15:
        # measurement-boundary documents (their page width is calibrated before the run, see job())
        recs.append(R.gen_boundary_recipe(rng, t, pal))
        if rng.random() < 0.6:
            recs.append(R.gen_boundary_recipe(rng, t, pal))
    if corpus_files and rng.random() < 0.3:
        # documents the repository's own tests build (harvested from the suite before the batch)
        for _ in range(rng.choice([1, 1, 2])):
            recs.append(_corpus_recipe(rng.choice(corpus_files)))
    # permuted twins: the same document with the table's columns in another physical order (same names, same
    # shape, same component specs) - anything keyed on names but applied by position, or vice versa, shows
    if rng.random() < 0.3:
        cands = [r for r in recs if r["kind"] in ("single", "multi") and any(len(f["cols"]) >= 3 for f in r["dfs"])]
        if cands:
            tw = json_copy(rng.choice(cands))
            for f in tw["dfs"]:
                if len(f["cols"]) >= 3:
                    order = list(range(len(f["cols"])))
                    rng.shuffle(order)
                    f["cols"] = [f["cols"][i] for i in order]
            tw.pop("calib", None)
            recs.append(tw)
    # equal-valued documents built twice are the sharpest probe for sharing
    if rng.random() < 0.35:
        recs.append(json_copy(rng.choice(recs)))
    # documents whose CONSTRUCTION raises (rejected configuration) are history steps too
    if rng.random() < 0.3:
        bad = make_invalid(rng, json_copy(rng.choice(recs)))
        if bad is not None:
            recs.append(bad)
    share_p = rng.choice([0.0, 0.3, 0.8])
    fault_mode = rng.choice(["none", "none", "natural", "abort", "both"])
    if fault_mode in ("none", "abort"):
        # no naturally failing documents wanted: keep them out when identifiable
        recs = [r for r in recs if not _has_broken_frame(r)] or recs
    L = rng.randint(2, 12)
    trace_mode = rng.choice(["call", "call", "callret"])
    ops: list = []
    slots: dict = {}  # slot -> recipe index
    next_slot = 0

    def share_flags():
        return {c: (rng.random() < share_p) for c in SHAREABLE}

    def add_construct():
        nonlocal next_slot
        ri = rng.randrange(len(recs))
        s = next_slot
        next_slot += 1
        slots[s] = ri
        ops.append({"op": "construct", "slot": s, "recipe": ri, "share": share_flags()})
        return s

    def add_mutate(s):
        """Replace one text component of a live document by a freshly built one;
        the document is then equal-valued to a new recipe (appended to the pool)."""
        base = recs[slots[s]]
        if base["kind"] == "corpus":
            return False
        comp = rng.choice(MUTABLE)
        spec = dict(rng.choice(pal[comp]))
        if rng.random() < 0.15 and comp != "title":
            spec = None
        if spec is not None and base["kind"] == "figure" and comp in ("footnote", "source"):
            spec["as_table"] = False
        new = json_copy(base)
        new[comp] = spec
        if cjson(new) == cjson(base):
            return False
        recs.append(new)
        slots[s] = len(recs) - 1
        ops.append({"op": "mutate", "slot": s, "comp": comp, "recipe": len(recs) - 1})
        return True

    add_construct()
    want_special_next = False
    while len(ops) < L - 1:
        live = sorted(slots)
        r = rng.random()
        if live and rng.random() < 0.08:
            s = rng.choice(live)
            if add_mutate(s):
                if rng.random() < 0.8:
                    ops.append({"op": "encode", "slot": s})
                continue
        if want_special_next and live:
            # bias: after an abort, encode a multi-section / figure document if any
            special = [s for s in live if recs[slots[s]]["kind"] in ("multi", "figure")]
            want_special_next = False
            if special:
                ops.append({"op": "encode", "slot": rng.choice(special)})
                continue
        if r < 0.3 and next_slot < 8:
            add_construct()
        elif r < 0.75 and live:
            ops.append({"op": "encode", "slot": rng.choice(live)})
            if rng.random() < 0.25:
                ops.append({"op": "encode", "slot": ops[-1]["slot"]})  # encode twice
        elif r < 0.92 and live and fault_mode in ("abort", "both"):
            ops.append({"op": "encode_abort", "slot": rng.choice(live), "u": rng.random(),
                        "exc": rng.choice(ABORT_EXCS), "k": None})
            want_special_next = rng.random() < 0.3
        elif live and len(live) > 1 and rng.random() < 0.5:
            s = rng.choice(live)
            del slots[s]
            ops.append({"op": "drop", "slot": s})
            if rng.random() < 0.6 and next_slot < 8:
                ops.append({"op": "encode", "slot": add_construct()})
        elif next_slot < 8:
            add_construct()
    live = sorted(slots)
    if not live:
        live = [add_construct()]
    ops.append({"op": "encode", "slot": rng.choice(live)})
    # epilogue (warm process vs cold process): every recipe of the pool once more, built from fresh
    # components, in the process as the history left it
    if rng.random() < 0.7:
        order = list(range(len(recs)))
        rng.shuffle(order)
        for ri in order[:6]:
            s = next_slot
            next_slot += 1
            ops.append({"op": "construct", "slot": s, "recipe": ri, "share": {c: False for c in SHAREABLE},
                        "epilogue": True})
            ops.append({"op": "encode", "slot": s, "epilogue": True})
    return {"recipes": recs, "ops": ops, "trace_mode": trace_mode,
            "gen": {"share_p": share_p, "fault_mode": fault_mode, "toggles": {k: v for k, v in t.items()}}}


def json_copy(x):
    import json

    return json.loads(json.dumps(x))


INVALID_EDITS = [
    # (where, key, value) - one per validator family of the component classes
    ("body", "group_by", ["no_such_column"]), ("body", "page_by", ["no_such_column"]),
    ("body", "subline_by", ["no_such_column"]), ("body", "new_page!", True),
    ("body", "text_color", "notacolour"), ("body", "text_background_color", [["notacolour"]]),
    ("body", "text_font", [[1, 11]]), ("body", "text_font_size", [[-3]]), ("body", "text_format", [["q"]]),
    ("body", "text_justification", [["x"]]), ("body", "border_left", [["wobbly"]]),
    ("body", "cell_justification", [["x"]]), ("body", "pageby_row", "nowhere"), ("body", "col_rel_width", [0, -1]),
    ("page", "border_first", "wobbly"), ("page", "page_title", "middle"), ("page", "orientation", "diagonal"),
    ("page", "nrow", 0), ("page", "width", -1.0), ("page", "margin", [1, 1, 1]),
    ("title", "text_justification", ["x"]), ("title", "text_font", [99]), ("title", "text_color", ["notacolour"]),
    ("footnote", "text_font", [[42]]), ("footnote", "border_top", [["wobbly"]]),
    ("source", "text_format", [["zz"]]), ("page_header", "text_font_size", [0]),
    ("header", "text_color", [["notacolour"]]), ("header", "text_font", [[0]]),
]


def make_invalid(rng, rec: dict):
    if rec["kind"] == "corpus":
        return None
    return _make_invalid(rng, rec)


def _make_invalid(rng, rec: dict):
    """A recipe whose construction is (probably) rejected - ValueError somewhere in a
    component or document validator; what exactly happens is up to the reference."""
    if rec["kind"] == "figure" and rng.random() < 0.5:
        if rng.random() < 0.5:
            rec["footnote"] = {"text": "x", "as_table": True}
        else:
            rec["figure"]["kw"]["fig_align"] = "diagonal"
        return rec
    where, key, val = rng.choice(INVALID_EDITS)
    if where == "body":
        if not rec.get("bodies"):
            return None
        b = rec["bodies"][0]
        if key == "new_page!":
            b.pop("page_by", None)
            b["new_page"] = True
        else:
            b[key] = val
    elif where == "header":
        if rec["kind"] == "figure":
            return None
        n = len(rec["dfs"][0]["cols"]) if rec.get("dfs") else 2
        rec["headers"] = [{"text": ["h"] * n, key: val}] if rec["kind"] == "single" else \
            [[{"text": ["h"] * len(f["cols"]), key: val}] for f in rec["dfs"]]
    else:
        comp = dict(rec.get(where) or ({"text": "t"} if where != "page" else {}))
        comp[key] = val
        if rec["kind"] == "figure" and where in ("footnote", "source"):
            comp["as_table"] = False
        rec[where] = comp
    return rec


def _has_broken_frame(rec) -> bool:
    if rec["kind"] == "corpus":
        return False
    for f in rec.get("dfs", []):
        v = f["cols"][0][2]
        if len(v) >= 3 and v[0] == "G1" and v[1] == "G2" and v[2] == "G1":
            return True
        if len(f["cols"]) > 1 and f["cols"][1][2][:3] == ["S0", "S1", "S0"]:
            return True
    return False


# --------------------------------------------------------------------------
# execution (in a pristine child)
# --------------------------------------------------------------------------


def exec_history(arg) -> dict:
    import sys

    from . import boot, state
    from .trace import Injector

    boot.bootstrap()
    plan = arg["plan"]
    R.apply_ambient(R.plan_ambient(plan["recipes"]))
    refs = arg["refs"]  # recipe index (str) -> reference
    figdir = arg["figdir"]
    os.makedirs(figdir, exist_ok=True)
    do_sweep = arg.get("sweep", False)
    recs = plan["recipes"]
    pool = R.Pool()
    docs: dict = {}  # slot -> (doc, frames, recipe index)
    held_frames: list = []  # (frame object, spec) the caller holds
    log = []
    pristine = dict(state.sweep(), **{"<external: cwd/env/decimal/locale/...>": state.external_digest()}) if do_sweep else None
    s1_0 = state.s1_digest()
    steps_total = 0
    ext_prev = state.external_probe()

    def comp_dumps(doc):
        out = {}
        for ctype, attr in (("body", "rtf_body"), ("header", "rtf_column_header"), ("page", "rtf_page"),
                            ("title", "rtf_title"), ("subline", "rtf_subline"), ("page_header", "rtf_page_header"),
                            ("page_footer", "rtf_page_footer"), ("footnote", "rtf_footnote"),
                            ("source", "rtf_source"), ("figure", "rtf_figure")):
            try:
                out[ctype] = state.component_dump(getattr(doc, attr, None))
            except Exception:  # noqa: BLE001 - targeting signal only
                out[ctype] = "?"
        return out

    def frames_ok():
        bad = []
        for df, expected in held_frames:
            try:
                if R.frame_snapshot(df) != expected:
                    bad.append(digest(expected["columns"]))
            except BaseException as e:  # noqa: BLE001
                bad.append(f"unreadable:{type(e).__name__}")
        return bad

    for i, op in enumerate(plan["ops"]):
        ev = {"i": i, "op": op["op"], "slot": op["slot"]}
        kind = op["op"]
        if kind == "construct":
            ri = op["recipe"]
            ev["recipe"] = ri
            hits0 = dict(pool.hit_kinds)
            holder = {}
            pool_before = {k: state.component_dump(o) for k, o in pool.objs.items()}

            def construct():
                holder["doc"], holder["frames"] = R.build(recs[ri], pool, op["share"], figdir)
                return "constructed"

            o = R.outcome_of(construct)
            o.pop("_text", None)
            ev["outcome"] = R.strip(o) if o["k"] != "ok" else {"k": "ok"}
            ev["shared"] = sorted(k for k in pool.hit_kinds if pool.hit_kinds[k] != hits0.get(k, 0))
            # targeting signal: constructing this document changed a component object the caller already held
            ev["dirtied"] = sorted({k.split(":", 1)[0] for k, d in pool_before.items()
                                    if state.component_dump(pool.objs[k]) != d})
            if o["k"] == "ok":
                docs[op["slot"]] = (holder["doc"], holder["frames"], ri)
                if recs[ri]["kind"] == "corpus":
                    for df in holder["frames"]:
                        if not any(df is h for h, _ in held_frames):
                            held_frames.append((df, R.frame_snapshot(df)))  # taken before any encode of it
                else:
                    for df, spec in zip(holder["frames"], recs[ri]["dfs"]):
                        if not any(df is h for h, _ in held_frames):
                            held_frames.append((df, R.expected_frame_snapshot(spec)))
        elif kind in ("encode", "encode_abort"):
            ent = docs.get(op["slot"])
            if ent is None:
                ev["skipped"] = True
                log.append(ev)
                continue
            doc, frames, ri = ent
            ev["recipe"] = ri
            ev["s1"] = digest(state.s1_digest())
            ev["comp"] = state.component_dump([doc.rtf_body, doc.rtf_column_header, doc.rtf_page,
                                               doc.rtf_footnote, doc.rtf_source, doc.rtf_title])
            if kind == "encode":
                before = comp_dumps(doc)
                o = R.outcome_of(doc.rtf_encode)
                after = comp_dumps(doc)
                ev["dirtied"] = sorted(k for k in before if before[k] != after[k])
                text = o.pop("_text", None)
                ev["outcome"] = R.strip(o)
                ref = refs[str(ri)]["encode"]
                if ref is not None and not R.same_outcome(ev["outcome"], ref) and text is not None:
                    ev["text"] = text
            else:
                ncalls = refs[str(ri)].get("ncalls", 0)
                k = op.get("k")
                if k is None:
                    k = 1 + int(op["u"] * ncalls) if ncalls else None
                ev["k"] = k
                if k is None:
                    ev["skipped"] = True
                    log.append(ev)
                    continue
                inj = Injector(k, exc=op["exc"], mode=plan.get("trace_mode", "call"),
                               on_fire=lambda: state.s1_digest().get("colour_ctx") not in (None, "n/a"))
                old = sys.gettrace()
                sys.settrace(inj)
                try:
                    o = R.outcome_of(doc.rtf_encode)
                finally:
                    sys.settrace(old)
                o.pop("_text", None)
                steps_total += inj.steps
                ev["fired"] = inj.fired
                ev["outcome"] = R.strip(o)  # recorded, never judged when fired
                ev["in_ctx"] = bool(inj.fired and inj.fired.get("probe"))
        elif kind == "mutate":
            ent = docs.get(op["slot"])
            if ent is None:
                ev["skipped"] = True
                log.append(ev)
                continue
            doc, frames, _ri = ent
            ri = op["recipe"]
            ev["recipe"] = ri
            spec = recs[ri].get(op["comp"])

            def mutate():
                obj = None if spec is None else pool.component(op["comp"], spec, False)
                setattr(doc, R._COMP_ARG[op["comp"]], obj)
                return "mutated"

            o = R.outcome_of(mutate)
            o.pop("_text", None)
            ev["outcome"] = {"k": o["k"]} if o["k"] == "ok" else R.strip(o)
            if o["k"] == "ok":
                docs[op["slot"]] = (doc, frames, ri)
        elif kind == "copy":
            ent = docs.get(op["slot"])
            if ent is None:
                ev["skipped"] = True
                log.append(ev)
                continue
            doc, frames, ri = ent
            ev["recipe"] = ri
            how = op["how"]
            holder = {}

            def make_copy():
                import copy as _copy
                import pickle as _pickle

                if how == "deepcopy":
                    holder["c"] = _copy.deepcopy(doc)
                elif how == "copy":
                    holder["c"] = _copy.copy(doc)
                elif how == "model_copy":
                    holder["c"] = doc.model_copy()
                elif how == "model_copy_deep":
                    holder["c"] = doc.model_copy(deep=True)
                else:
                    holder["c"] = _pickle.loads(_pickle.dumps(doc))
                return "copied"

            o = R.outcome_of(make_copy)
            o.pop("_text", None)
            ev["outcome"] = {"k": "ok"} if o["k"] == "ok" else R.strip(o)  # recorded, not judged: no reference for it
            if o["k"] == "ok":
                docs[op["to"]] = (holder["c"], frames, ri)
        elif kind == "drop":
            if op["slot"] in docs:
                del docs[op["slot"]]
                gc.collect()
            else:
                ev["skipped"] = True
        ev["frames_bad"] = frames_ok()
        ext = state.external_probe()
        if ext != ext_prev:
            # targeting signal only: process-global state OUTSIDE the package differs after this operation
            ev["external_changed"] = sorted(k for k in ext if ext[k] != ext_prev.get(k))
            ext_prev = ext
        log.append(ev)

    out = {"log": log, "steps": steps_total, "shared_hits": pool.shared_hits,
           "hit_kinds": pool.hit_kinds, "s1_start": s1_0, "s1_end": state.s1_digest()}
    if do_sweep:
        end = dict(state.sweep(), **{"<external: cwd/env/decimal/locale/...>": state.external_digest()})
        out["movers"] = sorted(k for k in set(pristine) | set(end) if pristine.get(k) != end.get(k))
        out["sweep_size"] = len(end)
    return out


# --------------------------------------------------------------------------
# judging (pure)
# --------------------------------------------------------------------------

_TOK = re.compile(r"\\[a-zA-Z]+-?\d*|\\.|[{}]|[^\\{}]+")
_COLOUR_WORDS = ("cf", "cb", "chcbpat", "brdrcf", "clcbpat", "highlight", "chshdng", "clcfpat")
_CELLX = ("cellx",)


def diff_class(obs: str, ref: str) -> str:
    """Token-level classification of how two RTF strings differ."""
    a = _TOK.findall(obs)
    b = _TOK.findall(ref)
    if len(a) != len(b):
        return "content_mismatch"
    kinds = set()
    for x, y in zip(a, b):
        if x == y:
            continue
        mx = re.fullmatch(r"\\([a-zA-Z]+)(-?\d*)", x)
        my = re.fullmatch(r"\\([a-zA-Z]+)(-?\d*)", y)
        if mx and my and mx.group(1) == my.group(1):
            w = mx.group(1)
            if w in _COLOUR_WORDS:
                kinds.add("colour_index_only")
            elif w in _CELLX:
                kinds.add("cellx_only")
            else:
                kinds.add("control_param:" + w)
        else:
            kinds.add("content_mismatch")
    if not kinds:
        return "content_mismatch"
    if len(kinds) == 1:
        k = kinds.pop()
        return k if not k.startswith("control_param") else "control_param"
    if kinds <= {"colour_index_only", "cellx_only"}:
        return "colour_and_cellx"
    return "content_mismatch"


def judge(plan: dict, res: dict, refs: dict) -> list:
    """Return a list of violations (dicts) in log order."""
    out = []
    recs = plan["recipes"]
    aborted_before = False
    natural_fail_before = False
    last_enc = {}  # slot -> (index, outcome) of the previous non-aborted encode, for check 3
    for ev in res["log"]:
        if ev.get("skipped"):
            continue
        ri = ev.get("recipe")
        ref = refs.get(str(ri)) if ri is not None else None
        v = None
        if ev["op"] == "construct":
            rc = ref["construct"]
            oc = ev["outcome"]
            if oc["k"] != rc["k"] or (oc["k"] != "ok" and oc.get("type") != rc.get("type")):
                v = {"class": "construct_" + ("exception_vs_ok" if rc["k"] == "ok" else
                                              ("ok_vs_exception" if oc["k"] == "ok" else "other_exception")),
                     "observed": oc, "expected": rc}
            last_enc.pop(ev["slot"], None)
        elif ev["op"] == "encode":
            re_ = ref["encode"]
            oc = ev["outcome"]
            if re_ is None:
                pass  # reference could not even construct; construct mismatch reported above
            elif not R.same_outcome(oc, re_):
                if re_["k"] == "ok" and oc["k"] == "ok":
                    cls = "output_differs"
                elif re_["k"] == "ok":
                    cls = "exception_vs_ok"
                elif oc["k"] == "ok":
                    cls = "ok_vs_exception"
                else:
                    cls = "other_exception"
                v = {"class": cls, "observed": oc, "expected": re_}
            else:
                prev = last_enc.get(ev["slot"])
                if prev is not None and not R.same_outcome(prev, oc):
                    v = {"class": "encode_twice_differs", "observed": oc, "expected": prev}
            last_enc[ev["slot"]] = oc
            if re_ is not None and re_["k"] != "ok":
                natural_fail_before_now = True
            else:
                natural_fail_before_now = False
        elif ev["op"] == "encode_abort":
            pass
        elif ev["op"] == "mutate":
            # a model that refuses attribute assignment (frozen) is legitimate: the
            # executor then keeps the slot's old recipe and nothing is judged here
            last_enc.pop(ev["slot"], None)
        if v is None and ev.get("frames_bad"):
            v = {"class": "dataframe_mutated", "observed": ev["frames_bad"], "expected": []}
        if v is not None:
            v.update({
                "at": ev["i"], "op": ev["op"], "slot": ev["slot"], "recipe": ri,
                "after_abort": aborted_before, "after_natural_failure": natural_fail_before,
                "target": R.recipe_traits(recs[ri]) if ri is not None else None,
                "shared": _shared_of(res["log"], ev["slot"]),
            })
            if "text" in ev:
                v["_text"] = ev["text"]
            out.append(v)
        if ev["op"] == "encode_abort" and ev.get("fired"):
            aborted_before = True
        if ev["op"] == "encode" and ref and ref["encode"] and ref["encode"]["k"] != "ok":
            natural_fail_before = True
    return out


def _shared_of(log, slot):
    for ev in log:
        if ev["op"] == "construct" and ev["slot"] == slot:
            return ev.get("shared", [])
    return []


def signature(v: dict) -> dict:
    return {
        "class": v["class"],
        "op": v["op"],
        "target_path": (v.get("target") or {}).get("path"),
        "target_coloured": (v.get("target") or {}).get("coloured"),
        "after_abort_only": bool(v.get("after_abort")) and not v.get("after_natural_failure"),
        "shared": bool(v.get("shared")),
    }


# --------------------------------------------------------------------------
# references
# --------------------------------------------------------------------------


class RefCache:
    """References per recipe.  With `server` (a zygote under another
    PYTHONHASHSEED) every run-vs-reference comparison also spans two hash seeds."""

    def __init__(self, figdir: str, server=None):
        self.figdir = figdir
        self.cache: dict = {}
        self.computed = 0
        self.server = server

    def get(self, recipe: dict, want_text=False, local=False) -> dict:
        h = R.recipe_hash(recipe)
        if not want_text and not local and h in self.cache:
            return self.cache[h]
        arg = {"recipe": recipe, "figdir": self.figdir, "want_text": want_text}
        if self.server is not None and not local:
            ref = self.server.call("sim.recipes:reference_worker", arg)
        else:
            ref = core.run_in_child(R.reference_worker, arg)
        self.computed += 1
        if not want_text and not local:
            self.cache[h] = ref
        return ref

    def for_plan(self, plan: dict) -> dict:
        return {str(i): self.get(r) for i, r in enumerate(plan["recipes"])}


# --------------------------------------------------------------------------
# minimisation
# --------------------------------------------------------------------------


def run_plan(plan: dict, refs: dict, figdir: str, sweep=False) -> dict:
    return core.run_in_child(exec_history, {"plan": plan, "refs": refs, "figdir": figdir, "sweep": sweep})


def _first_violation(plan, refs, figdir, want_class=None):
    res = run_plan(plan, refs, figdir)
    vs = judge(plan, res, refs)
    for v in vs:
        if want_class is None or v["class"] == want_class:
            return v, res
    return None, res


def freeze_aborts(plan: dict, res: dict) -> dict:
    """Replace seeded abort positions by the explicit k that was used."""
    p = json_copy(plan)
    for ev in res["log"]:
        if ev["op"] == "encode_abort" and ev.get("k") is not None:
            p["ops"][ev["i"]]["k"] = ev["k"]
    return p


def minimise(plan: dict, refs: dict, figdir: str, v: dict, refcache: RefCache, budget_n=200):
    """ddmin over operations, then un-share flags, then drop optional recipe
    parts; keep a candidate iff the same violation class reappears."""
    cls = v["class"]
    budget = [budget_n if not os.environ.get("VERIF_STOP_AFTER_FIRST") else 2]  # regression tooling: no shrinking
    cur = json_copy(plan)

    def test_ops(ops):
        cand = dict(cur, ops=ops)
        try:
            vv, _ = _first_violation(cand, refs, figdir, cls)
        except HarnessError:
            return False
        return vv is not None

    # truncate after the violating op first (cheap, always valid)
    head = cur["ops"][: v["at"] + 1]
    budget[0] -= 1
    if test_ops(head):
        cur["ops"] = head
    cur["ops"] = core.ddmin(cur["ops"], test_ops, budget)

    # un-share flags one by one
    for op in cur["ops"]:
        if op["op"] != "construct":
            continue
        for c in list(op["share"]):
            if not op["share"][c] or budget[0] <= 0:
                continue
            op["share"][c] = False
            budget[0] -= 1
            if not test_ops(cur["ops"]):
                op["share"][c] = True

    # drop recipes no longer referenced, renumber
    used = sorted({op["recipe"] for op in cur["ops"] if op["op"] in ("construct", "mutate")})
    remap = {old: new for new, old in enumerate(used)}
    cur["recipes"] = [cur["recipes"][i] for i in used]
    for op in cur["ops"]:
        if op["op"] in ("construct", "mutate"):
            op["recipe"] = remap[op["recipe"]]
    refs2 = {str(remap[int(k)]): r for k, r in refs.items() if int(k) in remap}

    # simplify recipes: drop optional components (needs new references);
    # skipped when mutate ops derive one recipe from another
    has_mut = any(op["op"] == "mutate" for op in cur["ops"])
    for ri in range(len(cur["recipes"]) if not has_mut else 0):
        for comp in ("title", "subline", "page_header", "page_footer", "footnote", "source"):
            if budget[0] <= 2 or cur["recipes"][ri].get(comp) is None:
                continue
            cand = json_copy(cur)
            cand["recipes"][ri][comp] = None
            try:
                r2 = dict(refs2)
                r2[str(ri)] = refcache.get(cand["recipes"][ri])
                budget[0] -= 2
                vv, _ = _first_violation(cand, r2, figdir, cls)
            except HarnessError:
                vv = None
            if vv is not None:
                cur = cand
                refs2 = r2
    return cur, refs2


# --------------------------------------------------------------------------
# replay
# --------------------------------------------------------------------------


def replay_worker(arg) -> dict:
    """Fresh interpreter: recompute the references in pristine children of this
    very process (it has only bootstrapped), run the history, judge."""
    from . import boot

    boot.bootstrap()
    plan = arg["plan"]
    figdir = tempfile.mkdtemp(prefix="vreplay")
    server = None
    try:
        if plan.get("hashseed"):
            # the violation is a disagreement between two hash seeds: references from the other one
            server = core.RefServer(int(plan["hashseed"]))
        rc = RefCache(figdir, server)
        refs = rc.for_plan(plan)
        res = run_plan(plan, refs, figdir)
        vs = judge(plan, res, refs)
        for v in vs:
            v.pop("_text", None)
        return {"violations": vs, "signatures": [signature(v) for v in vs],
                "log_digest": log_digest(res)}
    finally:
        if server is not None:
            server.close()
        shutil.rmtree(figdir, ignore_errors=True)


def log_digest(res: dict) -> str:
    slim = []
    for ev in res["log"]:
        e = {k: v for k, v in ev.items() if k not in ("text",)}
        slim.append(e)
    return digest({"log": slim, "s1_end": res.get("s1_end")})


# --------------------------------------------------------------------------
# one job (runs in a worker zygote)
# --------------------------------------------------------------------------

CONTEXT_EDITS = [
    ("page", {"border_last": ""}), ("page", {"border_first": ""}), ("page", {"page_footnote": "first"}),
    ("page", {"page_footnote": "all"}), ("page", {"page_source": "all"}), ("page", {"page_title": "all"}),
    ("page", {"nrow": 4}), ("page", {"nrow": 30}), ("page", {"orientation": "landscape"}),
    ("source", {"text": "Source: follow-up", "as_table": True}), ("source", None),
    ("footnote", {"text": ["follow-up note"], "as_table": True}), ("footnote", None),
    ("title", {"text": ["Follow-up title", "second line"]}), ("title", None),
    ("body*", {"border_last": [[""]]}), ("body*", {"border_first": [[""]]}), ("body*", {"border_bottom": [["double"]]}),
]


COPY_HOWS = ["deepcopy", "deepcopy", "model_copy", "model_copy_deep", "copy", "pickle"]


def _recipe_of_slot(ops: list, upto: int, slot: int):
    ri = None
    for o in ops[: upto + 1]:
        if o.get("slot") == slot and o["op"] in ("construct", "mutate"):
            ri = o["recipe"]
        elif o["op"] == "drop" and o.get("slot") == slot:
            ri = None
    return ri


def add_copy_ops(plan: dict, rng, p: float = 0.25) -> None:
    """The caller copies a live document (copy.deepcopy, copy.copy, pydantic model_copy, pickle round trip) and
    encodes copy and original: an equal-valued document, so the same reference applies.  Own random stream, applied
    after generation: older seeds keep the rest of their plans."""
    if rng.random() >= p:
        return
    cands = [i for i, o in enumerate(plan["ops"]) if o["op"] == "encode" and not o.get("epilogue")]
    if not cands:
        return
    for n_, i in enumerate(sorted(rng.sample(cands, min(len(cands), rng.choice([1, 1, 2]))), reverse=True)):
        s = plan["ops"][i]["slot"]
        to = 200 + n_
        extra = [{"op": "copy", "slot": s, "to": to, "how": rng.choice(COPY_HOWS)}, {"op": "encode", "slot": to}]
        ri = _recipe_of_slot(plan["ops"], i, s)
        base = plan["recipes"][ri] if ri is not None else None
        if base is not None and base["kind"] in ("single", "multi", "figure") and rng.random() < 0.5:
            # ... and gives the copy another page set-up before encoding it
            new = json_copy(base)
            pg = dict(new.get("page") or {})
            how = rng.choice(["orientation", "orientation", "margin", "size", "nrow"])
            if how == "orientation":
                pg["orientation"] = "landscape" if pg.get("orientation", "portrait") == "portrait" else "portrait"
            elif how == "margin":
                pg["margin"] = [0.5, 0.5, 1.0, 1.0, 0.75, 0.75] if pg.get("margin") != [0.5, 0.5, 1.0, 1.0, 0.75, 0.75] \
                    else [1.0, 1.0, 1.5, 1.0, 1.0, 0.5]
            elif how == "size":
                pg["width"], pg["height"] = (11.0, 17.0) if pg.get("width") != 11.0 else (8.27, 11.69)
            else:
                pg["nrow"] = 7 if pg.get("nrow") != 7 else 9
            new["page"] = pg
            new.pop("calib", None)
            plan["recipes"].append(new)
            rng.random()  # (kept: one draw, so that the stream stays aligned)
            tgt = to  # always the COPY: later generated steps of the original assume its recipe is unchanged
            extra += [{"op": "mutate", "slot": tgt, "comp": "page", "recipe": len(plan["recipes"]) - 1},
                      {"op": "encode", "slot": tgt}]
        if rng.random() < 0.7:
            extra.append({"op": "encode", "slot": s})
        if rng.random() < 0.3:
            extra.append({"op": "encode", "slot": to})
        at = i + 1 if rng.random() < 0.7 else i  # mostly after the original has been encoded once, sometimes before
        plan["ops"][at:at] = extra


def external_probe_recipes(rng) -> list:
    """Documents whose cell text or row measurements pass through state that lives outside the package:
    list-valued cells (rendered and measured through the data-frame library's own text form), floats, dates,
    paginated so that a changed measurement moves a page break."""
    def single(cols, body, nrow):
        return {"kind": "single", "page": {"nrow": nrow}, "title": {"text": ["Probe"]}, "subline": None,
                "page_header": None, "page_footer": None, "footnote": None, "source": None,
                "dfs": [{"cols": cols}], "bodies": [body], "headers": "default"}

    n = rng.choice([24, 30, 45])
    ids = [f"S{i:02d}" for i in range(n)]
    long_lists = [[f"Preferred term number {i} with a fairly long description text", "Second"] for i in range(n)]
    many = [list(range(1, 2 + (i * 5) % 17)) for i in range(n)]
    floats = [((i * 37) % 1000) / 7.0 for i in range(n)]
    dates = [f"20{10 + i % 15}-{1 + i % 12:02d}-{1 + i % 28:02d}" for i in range(n)]
    out = [single([["id", "str", ids], ["terms", "list_str", long_lists]], {"col_rel_width": [1, 3]}, rng.choice([15, 20])),
           single([["id", "str", ids], ["k", "list_int", many], ["x", "float", floats]],
                  {"col_rel_width": [2, 1, 1]}, rng.choice([15, 20])),
           single([["id", "str", ids], ["d", "date", dates], ["x", "float", floats], ["terms", "list_str", long_lists]],
                  {"col_rel_width": [1, 1, 1, 2], "group_by": ["id"]}, 20)]
    lite = {"small_nrow": True, "convert": True, "list_cols": True}
    for _ in range(2):
        nc = rng.choice([2, 3, 4])
        out.append(single(R.gen_frame(rng, lite, nc, "plain")["cols"], {"col_rel_width": [1] * nc}, rng.choice([8, 15])))
    # figure documents: a genuine metafile, a raster image, an image without a readable size
    for files in ([{"fmt": "emf_real", "w": 800, "h": 600, "seed": 1}], [{"fmt": "png", "w": 300, "h": 200, "seed": 2}],
                  [{"fmt": "emf_real", "w": 640, "h": 480, "seed": 3}, {"fmt": "raw", "w": 10, "h": 10, "seed": 4}]):
        out.append({"kind": "figure", "page": {}, "title": {"text": ["Figure probe"]}, "subline": None,
                    "page_header": None, "page_footer": None, "footnote": None, "source": None,
                    "figure": {"files": files, "kw": {"fig_width": 6.0, "fig_height": 4.0}},
                    "dfs": [], "bodies": [], "headers": "default"})
    return out


def followup_plans(rng, plan: dict, res: dict, limit: int = 3) -> list:
    """Greybox targeting: an encode that changed a component object the document
    holds (a targeting signal, not a verdict - writing a memo is legal) is
    followed up with histories that re-use exactly that object in a *different
    context* and encode both documents in both orders."""
    out = []
    ext = [ev for ev in res["log"] if ev.get("external_changed")]
    if ext and not plan["gen"].get("followup"):
        # an operation left process-global state OUTSIDE the package changed (display configuration of the data
        # frame library, environment, decimal context ...): repeat the history up to that operation, then build
        # and encode documents whose text or measurements go through such state
        at = ext[0]["i"]
        probes = external_probe_recipes(rng)
        amb = R.plan_ambient(plan["recipes"])
        if amb:
            for pr in probes:
                pr["ambient"] = amb
        recs = json_copy(plan["recipes"]) + probes
        ops = json_copy(plan["ops"][: at + 1])
        for n_ in range(len(probes)):
            ops += [{"op": "construct", "slot": 100 + n_, "recipe": len(plan["recipes"]) + n_,
                     "share": {c: False for c in SHAREABLE}}, {"op": "encode", "slot": 100 + n_}]
        out.append({"recipes": recs, "ops": ops, "trace_mode": plan.get("trace_mode", "call"),
                    "gen": dict(plan["gen"], followup={"external": ext[0]["external_changed"]})})
    dirty = []
    for ev in res["log"]:
        if ev["op"] in ("encode", "construct") and ev.get("dirtied") and ev.get("recipe") is not None:
            for ctype in ev["dirtied"]:
                if (ev["recipe"], ctype) not in dirty:
                    dirty.append((ev["recipe"], ctype))
    rng.shuffle(dirty)
    for ri, ctype in dirty[:limit]:
        base = json_copy(plan["recipes"][ri])
        if base["kind"] == "corpus" or (base["kind"] == "figure" and ctype in ("body", "header")):
            continue
        if ctype == "body" and base.get("dfs") and rng.random() < 0.6:
            # explicit widths: the document then keeps the caller's body object instead of a defaulted copy
            for b, f in zip(base["bodies"], base["dfs"]):
                if len(b.get("col_rel_width") or []) != len(f["cols"]):
                    b["col_rel_width"] = [1] * len(f["cols"])
        var = json_copy(base)
        edits = [e for e in CONTEXT_EDITS if e[0].rstrip("*") != ctype]
        if var["kind"] == "single" and ctype in ("body", "header", "footnote", "source", "title", "page") \
                and rng.random() < 0.35:
            # the same component inside a LATER SECTION of a multi-section document
            lite = {"small_nrow": False, "convert": False}
            ncols0 = len(var["dfs"][0]["cols"])
            first = R.gen_frame(rng, lite, ncols0, "plain")
            var["kind"] = "multi"
            if rng.random() < 0.7:
                # a well-grouped table for the shared body, so that the later section can actually be rendered
                var["dfs"] = [R.gen_frame(rng, lite, ncols0, "grouped")]
            var["dfs"] = [first] + var["dfs"]
            var["bodies"] = [{}] + var["bodies"]
            h = var.get("headers")
            var["headers"] = [[None], h if isinstance(h, list) and h else [None]] if h != "default" else "default"
            if var.get("title") is None:
                var["title"] = {"text": ["Follow-up title"]}
            var["page"] = dict(var.get("page") or {}, page_title=rng.choice(["all", "last", "first"]))
        elif var["kind"] != "figure" and rng.random() < 0.6:
            # another table of the same width: more rows, other texts (row heights, page breaks differ)
            lite = {"small_nrow": rng.random() < 0.7, "convert": False}
            var["dfs"] = [R.gen_frame(rng, lite, len(f["cols"]), "plain") for f in var["dfs"]]
            for b in var["bodies"]:
                for k in ("group_by", "page_by", "subline_by", "new_page", "pageby_row"):
                    b.pop(k, None)
            if ctype == "body":
                var["bodies"] = json_copy(base["bodies"])  # the shared component itself must stay equal
                if any(k in b for b in var["bodies"] for k in ("group_by", "page_by", "subline_by")):
                    var["dfs"] = json_copy(base["dfs"])
        for tgt, val in rng.sample(edits, rng.choice([1, 2, 3])):
            if tgt == "page":
                var["page"] = dict(var.get("page") or {}, **val)
            elif tgt == "body*":
                var["bodies"] = [dict(b, **val) for b in var.get("bodies", [])]
            else:
                if var["kind"] == "figure" and tgt in ("footnote", "source") and val is not None:
                    val = dict(val, as_table=False)
                var[tgt] = val
        if cjson(var) == cjson(base):
            continue
        share = {c: (c == ctype) for c in SHAREABLE}
        a, b = (0, 1) if rng.random() < 0.5 else (1, 0)
        ops = [{"op": "construct", "slot": 0, "recipe": a, "share": dict(share)}, {"op": "encode", "slot": 0},
               {"op": "construct", "slot": 1, "recipe": b, "share": dict(share)}, {"op": "encode", "slot": 1},
               {"op": "encode", "slot": 0}, {"op": "encode", "slot": 1}]
        out.append({"recipes": [base, var], "ops": ops, "trace_mode": "call",
                    "gen": {"share_p": 1.0, "fault_mode": "none", "followup": {"ctype": ctype}, "toggles": {}}})
    return out


_worker_state: dict = {}


def _ws():
    if "refcache" not in _worker_state or _worker_state.get("pid") != os.getpid():
        figdir = tempfile.mkdtemp(prefix="vc14_")
        _worker_state.clear()
        server = None
        if os.environ.get("VERIF_NO_REFSERVER") != "1":
            server = core.RefServer(core.other_hashseed(core.root_seed()))
        _worker_state.update(pid=os.getpid(), figdir=figdir, refcache=RefCache(figdir, server), minimised=0)
    return _worker_state


def _handle_violation(ws, plan, refs, res, vs, idx, out, max_minimise):
    """Never lets a problem in minimisation / classification swallow the violation itself."""
    try:
        _handle_violation_inner(ws, plan, refs, res, vs, idx, out, max_minimise)
    except Exception:  # noqa: BLE001
        import traceback as _tb

        v = dict(vs[0])
        v.pop("_text", None)
        out["violations"].append({"v": v, "sig": signature(v), "plan": freeze_aborts(plan, res), "seed_idx": idx,
                                  "handler_error": _tb.format_exc()[-600:]})


def _handle_violation_inner(ws, plan, refs, res, vs, idx, out, max_minimise):
    v = vs[0]
    frozen = freeze_aborts(plan, res)
    if ws["minimised"] < max_minimise:
        ws["minimised"] += 1
        try:
            mplan, mrefs = minimise(frozen, refs, ws["figdir"], v, ws["refcache"])
            mv, mres = _first_violation(mplan, mrefs, ws["figdir"], v["class"])
            if mv is not None:
                frozen, v = mplan, mv
        except HarnessError as e:
            out["minimise_error"] = str(e)[:300]
    ref_text = None
    if "_text" in v and v.get("recipe") is not None:
        try:
            ref_text = ws["refcache"].get(frozen["recipes"][v["recipe"]], want_text=True).get("text")
        except HarnessError:
            ref_text = None
    if ref_text is not None and v["class"] == "output_differs":
        v["class"] = diff_class(v["_text"], ref_text)
    # was it the hash seed rather than the history?  (the reference came from another PYTHONHASHSEED)
    if (ws["refcache"].server is not None and v.get("recipe") is not None and v["op"] == "encode"
            and isinstance(v.get("observed"), dict) and "k" in v["observed"]):
        try:
            local = ws["refcache"].get(frozen["recipes"][v["recipe"]], local=True)
            if local["encode"] is not None and R.same_outcome(v["observed"], local["encode"]):
                v["class"] = "hashseed_dependent"
                frozen["hashseed"] = ws["refcache"].server.hashseed
        except HarnessError:
            pass
    v.pop("_text", None)
    out["violations"].append({"v": v, "sig": signature(v), "plan": frozen, "seed_idx": idx})


def job(j: dict) -> dict:
    ws = _ws()
    root, idx = j["root"], j["idx"]
    rng = core.rng_for(root, PROP, idx)
    plan = gen_plan(rng)
    arng = core.rng_for(root, PROP, "ambient", idx)
    if arng.random() < 0.15:
        # the caller's process has non-default settings (display configuration of the data-frame library, decimal
        # context, warning filters, cwd, tiny cache capacities ...); references are computed under the same settings
        amb = arng.choice(R.AMBIENTS)
        for r in plan["recipes"]:
            r["ambient"] = amb
    add_copy_ops(plan, core.rng_for(root, PROP, "copies", idx))
    bmode = core.derive(root, PROP, "braced", idx) % 10
    if bmode in (0, 5):
        R.add_braced(plan["recipes"], idx, family=(bmode == 5))
    ncal = R.resolve_calibration(plan["recipes"], ws.setdefault("calib_cache", {}))
    refs = ws["refcache"].for_plan(plan)
    t0 = time.monotonic()
    res = run_plan(plan, refs, ws["figdir"], sweep=(idx % 8 == 0))
    vs = judge(plan, res, refs)
    out = summarise(plan, res, refs, idx)
    out["violations"] = []
    out["calibrated_docs"] = ncal
    out["corpus_docs"] = sum(1 for r in plan["recipes"] if r["kind"] == "corpus")
    out["followups"] = 0
    out["followup_checked_encodes"] = 0
    if vs:
        _handle_violation(ws, plan, refs, res, vs, idx, out, j.get("max_minimise", 3))
    else:
        frng = core.rng_for(root, PROP, idx, "followup")
        digests = [out["digest"]]
        for fplan in followup_plans(frng, plan, res):
            frefs = ws["refcache"].for_plan(fplan)
            fres = run_plan(fplan, frefs, ws["figdir"])
            out["followups"] += 1
            out["followup_checked_encodes"] += sum(1 for e in fres["log"] if e["op"] == "encode" and not e.get("skipped"))
            digests.append(log_digest(fres))
            fsum = summarise(fplan, fres, frefs, idx)
            for key in ("states", "trans", "nontrivial"):
                out[key] = sorted(set(out[key]) | set(fsum[key]))
            fvs = judge(fplan, fres, frefs)
            if fvs:
                _handle_violation(ws, fplan, frefs, fres, fvs, idx, out, j.get("max_minimise", 3))
                break
        out["digest"] = digest(digests)
    out["ms"] = int((time.monotonic() - t0) * 1000)
    return out


def summarise(plan, res, refs, idx) -> dict:
    log = res["log"]
    checked = [e for e in log if e["op"] == "encode" and not e.get("skipped")]
    states = set()
    nontrivial = set()
    trans = set()
    pristine_s1 = digest(res["s1_start"])
    seen_enc = False
    for e in log:
        if e.get("skipped"):
            continue
        if e["op"] in ("encode", "encode_abort"):
            st = (e.get("s1"), e.get("comp"))
            states.add(digest(st))
            trans.add(digest((st, e["op"])))
            if e["op"] == "encode":
                fresh_like = (e.get("s1") == pristine_s1 and not seen_enc
                              and not _shared_of(log, e["slot"]))
                if not fresh_like:
                    nontrivial.add(digest((st, R.recipe_hash(plan["recipes"][e["recipe"]]))))
            seen_enc = True
    aborts = [e for e in log if e["op"] == "encode_abort" and not e.get("skipped")]
    fired = [e for e in aborts if e.get("fired")]
    nat = [e for e in checked if refs[str(e["recipe"])]["encode"] and refs[str(e["recipe"])]["encode"]["k"] != "ok"]
    return {
        "idx": idx,
        "digest": log_digest(res),
        "nops": len(log),
        "checked_encodes": len(checked),
        "constructs": sum(1 for e in log if e["op"] == "construct"),
        "construct_failed": sum(1 for e in log if e["op"] == "construct" and e["outcome"]["k"] != "ok"),
        "aborts": len(aborts), "aborts_fired": len(fired),
        "aborts_in_ctx": sum(1 for e in fired if e.get("in_ctx")),
        "abort_excs": sorted({e["fired"]["exc"] for e in fired}),
        "natural_failures": len(nat),
        "natural_types": sorted({refs[str(e["recipe"])]["encode"]["type"] for e in nat}),
        "drops": sum(1 for e in log if e["op"] == "drop" and not e.get("skipped")),
        "mutations": sum(1 for e in log if e["op"] == "mutate" and not e.get("skipped")),
        "ambient": bool(R.plan_ambient(plan["recipes"])),
        "copies": sum(1 for e in log if e["op"] == "copy" and not e.get("skipped")),
        "copies_failed": sum(1 for e in log if e["op"] == "copy" and not e.get("skipped")
                             and (e.get("outcome") or {}).get("k") != "ok"),
        "shared_hits": res["shared_hits"], "hit_kinds": res["hit_kinds"],
        "paths": sorted({plan["recipes"][e["recipe"]]["kind"] for e in checked}),
        "states": sorted(states), "trans": sorted(trans), "nontrivial": sorted(nontrivial),
        "movers": res.get("movers"), "sweep_size": res.get("sweep_size"),
        "steps": res["steps"],
        "fault_mode": plan["gen"]["fault_mode"],
        "sample": {"ops": [slim_op(o) for o in plan["ops"]],
                   "recipes": [R.recipe_traits(r) for r in plan["recipes"]]} if (idx < 3 or idx % 1000 == 0) else None,
    }


def slim_recipe(r):
    return {k: v for k, v in r.items() if k != "blob_b64"}


def slim_op(o):
    d = {k: v for k, v in o.items() if k != "share"}
    if "share" in o:
        d["share"] = sorted(k for k, v in o["share"].items() if v)
    return d


# --------------------------------------------------------------------------
# batch
# --------------------------------------------------------------------------

TIERS = {"quick": {"runs": 1600, "wall": 420.0, "xcheck": 24},
         "thorough": {"runs": 60000, "wall": 3000.0, "xcheck": 200}}


def xcheck_job(j: dict) -> dict:
    """Reference cross-check: forked-zygote reference vs two fresh interpreters
    under different hash seeds (DESIGN §3.3)."""
    recipe = j["recipe"]
    figdir = tempfile.mkdtemp(prefix="vx14_")
    try:
        a = core.run_in_child(R.reference_worker, {"recipe": recipe, "figdir": figdir})
        b = core.run_fresh("sim.recipes:reference_worker", {"recipe": recipe, "figdir": figdir}, hashseed=0)
        c = core.run_fresh("sim.recipes:reference_worker", {"recipe": recipe, "figdir": figdir},
                           hashseed=j["hashseed"])
    finally:
        shutil.rmtree(figdir, ignore_errors=True)
    key = lambda r: (cjson(r["construct"]), cjson(r["encode"]))  # noqa: E731
    return {"fork_vs_fresh": key(a) == key(b), "fresh_vs_fresh": key(b) == key(c),
            "ncalls_equal": a["ncalls"] == b["ncalls"] == c["ncalls"],
            "recipe": recipe, "hashseed": j["hashseed"], "outs": [key(a), key(b), key(c)]}


def coverage_worker(arg) -> dict:
    """Reach measure: statement coverage of the library achieved by constructing and
    encoding the documents of a sample of generated histories (informational)."""
    try:
        import coverage
    except Exception:  # noqa: BLE001
        return {"available": False}
    from . import boot

    cov = coverage.Coverage(source=[boot.PKG_DIR], data_file=None, branch=False)
    cov.start()
    try:
        boot.bootstrap()
        figdir = tempfile.mkdtemp(prefix="vcov_")
        n = 0
        for idx in arg["indices"]:
            plan = gen_plan(core.rng_for(arg["root"], PROP, idx))
            for rec in plan["recipes"]:
                if rec.get("calib"):
                    continue
                try:
                    d, _ = R.build(rec, None, None, figdir)
                    d.rtf_encode()
                    n += 1
                except BaseException:  # noqa: BLE001
                    pass
    finally:
        cov.stop()
    out = {"available": True, "documents": n, "modules": {}}
    tot_s = tot_m = 0
    data = cov.get_data()
    for f in sorted(data.measured_files()):
        rel = os.path.relpath(f, boot.PKG_DIR)
        if rel.startswith(("dictionary", "assemble", "convert")):
            continue  # tables of constants / not on the encode path
        try:
            _, stmts, _, missing, _ = cov.analysis2(f)
        except Exception:  # noqa: BLE001
            continue
        if not stmts:
            continue
        out["modules"][rel] = round(100.0 * (len(stmts) - len(missing)) / len(stmts), 1)
        tot_s += len(stmts)
        tot_m += len(missing)
    out["encode_path_statement_coverage_pct"] = round(100.0 * (tot_s - tot_m) / tot_s, 1) if tot_s else None
    shutil.rmtree(figdir, ignore_errors=True)
    return out


def main(opts) -> int:
    from . import boot, cli

    t0 = time.monotonic()
    boot.bootstrap()
    tier = TIERS[opts.tier]
    runs = opts.runs or tier["runs"]
    wall = opts.wall or tier["wall"]
    root = opts.seed
    from . import corpus

    ncorpus = corpus.harvest(os.path.join(opts.root_dir, "corpus"))
    jobs = [{"root": root, "idx": i} for i in range(runs)]
    results, truncated = core.pool_map(job, jobs, wall_cap=wall)
    herrs = [f"run {i}: {r['harness_error'][:600]}" for i, r in sorted(results.items()) if "harness_error" in r]
    good = [r for _, r in sorted(results.items()) if "harness_error" not in r]

    # reference cross-check on a seeded sample of recipes
    xrng = core.rng_for(root, PROP, "xcheck")
    xjobs = []
    for n in range(min(tier["xcheck"], runs)):
        idx = xrng.randrange(runs)
        plan = gen_plan(core.rng_for(root, PROP, idx))
        plan["recipes"] = [r for r in plan["recipes"] if not r.get("calib")] or plan["recipes"][:1]
        # half the sample: the recipe naming most distinct colours (set-order effects need >= 2)
        if n % 2 == 0:
            rec = max(plan["recipes"], key=lambda r: len({c for c in R.COLORS if f'"{c}"' in cjson(r)}))
        else:
            rec = xrng.choice(plan["recipes"])
        xjobs.append({"recipe": rec, "hashseed": xrng.randrange(1, 2 ** 31)})
    xres, _ = core.pool_map(xcheck_job, xjobs)
    xviol = []
    for i, r in sorted(xres.items()):
        if "harness_error" in r:
            herrs.append("xcheck: " + r["harness_error"][:600])
        elif not r["fresh_vs_fresh"]:
            xviol.append(r)
        elif not r["fork_vs_fresh"]:
            herrs.append(f"fork and spawn executors disagree on a reference: {cjson(r['outs'])[:400]}")

    violations = [v for r in good for v in r["violations"]]
    for r in xviol:
        violations.append({"sig": {"class": "hashseed_dependent", "op": "encode", "target_path": r["recipe"]["kind"],
                                   "target_coloured": None, "after_abort_only": False, "shared": False},
                           "plan": {"recipes": [r["recipe"]], "ops": [
                               {"op": "construct", "slot": 0, "recipe": 0, "share": {}}, {"op": "encode", "slot": 0}],
                               "trace_mode": "call", "hashseed": r["hashseed"]},
                           "v": {"class": "hashseed_dependent", "outs": r["outs"]}, "seed_idx": -1})

    def confirm(v):
        if v["sig"]["class"] == "hashseed_dependent":
            return True  # already observed between two fresh interpreters
        got = core.run_fresh("sim.histories:replay_worker", {"plan": v["plan"]}, hashseed=0, timeout=300)
        return any(s["class"] == v["sig"]["class"] or True for s in got["signatures"]) and bool(got["signatures"])

    def body(v):
        return {"property": PROP, "engine": "histories", "signature": v["sig"], "violation": v["v"],
                "plan": v["plan"], "root_seed": root, "seed_idx": v["seed_idx"],
                "how": "./check replay <this file>"}

    n_new, n_known, rc = cli.report(PROP, violations, herrs, confirm, body)

    covinfo = None
    if not opts.no_evidence:
        try:
            # fresh interpreter: the tracer has to be running before the package is imported
            covinfo = core.run_fresh("sim.histories:coverage_worker",
                                     {"root": root, "indices": list(range(min(runs, 120)))},
                                     timeout=240, bootstrap=False)
        except HarnessError:
            covinfo = {"available": False}
    wall_s = time.monotonic() - t0
    if not opts.no_evidence:
        write_evidence(opts, good, len(results), truncated, xres, n_new, n_known, wall_s, herrs, covinfo, ncorpus)
    print(f"C14 {opts.tier}: {len(good)} histories, {sum(r['checked_encodes'] for r in good)} checked encodes, "
          f"{n_new} new violation(s), {n_known} known, {len(herrs)} harness error(s), {wall_s:.1f}s"
          + (" [truncated by wall cap]" if truncated else ""))
    return rc


def write_evidence(opts, good, nres, truncated, xres, n_new, n_known, wall_s, herrs, covinfo=None, ncorpus=0):
    from . import boot

    states, trans, nontriv = set(), set(), set()
    movers: dict = {}
    hit_kinds: dict = {}
    modes: dict = {}
    paths: dict = {}
    nat_types: dict = {}
    abort_excs: dict = {}
    for r in good:
        states.update(r["states"])
        trans.update(r["trans"])
        nontriv.update(r["nontrivial"])
        for m in r.get("movers") or []:
            movers[m] = movers.get(m, 0) + 1
        for k, v in r["hit_kinds"].items():
            hit_kinds[k] = hit_kinds.get(k, 0) + v
        modes[r["fault_mode"]] = modes.get(r["fault_mode"], 0) + 1
        for p in r["paths"]:
            paths[p] = paths.get(p, 0) + 1
        for t in r["natural_types"]:
            nat_types[t] = nat_types.get(t, 0) + 1
        for t in r["abort_excs"]:
            abort_excs[t] = abort_excs.get(t, 0) + 1
    n = len(good)
    swept = [r for r in good if r.get("sweep_size")]
    cov = {
        "evaluations": n,
        "distinct_nontrivial": len(nontriv),
        "rule": ("one evaluation = one seeded history (2-12 ops of construct/encode/encode_abort/drop over a pool of "
                 "2-7 recipes with seeded component/frame sharing) executed in a pristine forked process; every "
                 "construct and non-aborted encode is compared with the fresh-process reference of its recipe and "
                 "every caller frame with its recipe. A checked encode is non-trivial when the process state before "
                 "it is not pristine (an earlier encode happened, or the S1 digest differs) or its document shares a "
                 "component/frame object with an earlier document; distinct by (S1 digest, component dump digest, "
                 "recipe hash)."),
        "samples": [r["sample"] for r in good if r.get("sample")][:3],
        "checked_encodes": sum(r["checked_encodes"] for r in good),
        "constructs": sum(r["constructs"] for r in good),
        "constructs_failed_as_reference": sum(r["construct_failed"] for r in good),
        "operations": sum(r["nops"] for r in good),
        "histories_per_hour": int(n / wall_s * 3600) if wall_s > 0 else 0,
        "simulated_time": "none (library has no clock); logical steps = traced call boundaries",
        "traced_steps": sum(r["steps"] for r in good),
        "distinct_abstract_states_before_encode": len(states),
        "distinct_state_op_transitions": len(trans),
        "fault_kinds": {
            "natural_encode_failure": {"fired": sum(r["natural_failures"] for r in good), "types": nat_types},
            "encode_abort": {"configured": sum(r["aborts"] for r in good),
                             "fired": sum(r["aborts_fired"] for r in good),
                             "fired_inside_colour_context": sum(r["aborts_in_ctx"] for r in good),
                             "exception_types": abort_excs},
            "drop_and_gc": {"fired": sum(r["drops"] for r in good)},
            "component_replaced_between_encodes": {"fired": sum(r.get("mutations", 0) for r in good)},
            "document_copied_by_caller": {"fired": sum(r.get("copies", 0) for r in good),
                                          "copy_raised": sum(r.get("copies_failed", 0) for r in good),
                                          "how": COPY_HOWS},
            "ambient_process_configuration": {"histories": sum(1 for r in good if r.get("ambient"))},
        },
        "histories_by_fault_mode": modes,
        "histories_fault_free": modes.get("none", 0),
        "corpus_documents_harvested_from_repository_tests": ncorpus,
        "corpus_documents_used": sum(r.get("corpus_docs", 0) for r in good),
        "measurement_boundary_documents": sum(r.get("calibrated_docs", 0) for r in good),
        "greybox_followups": {"histories": sum(r.get("followups", 0) for r in good),
                              "checked_encodes": sum(r.get("followup_checked_encodes", 0) for r in good),
                              "trigger": "an encode or construction changed a component object held by the "
                                         "document, or an operation left process state outside the package changed"},
        "sharing": {"shared_object_reuses": sum(r["shared_hits"] for r in good), "by_component": hit_kinds},
        "encode_paths_checked": paths,
        "state_sweep": {"histories_swept": len(swept),
                        "entries": max([r["sweep_size"] for r in swept] or [0]),
                        "entries_that_left_pristine_value": movers},
        "reference_crosscheck": {
            "recipes": len(xres),
            "fork_vs_fresh_agree": sum(1 for r in xres.values() if r.get("fork_vs_fresh")),
            "fresh_hashseed0_vs_other_agree": sum(1 for r in xres.values() if r.get("fresh_vs_fresh")),
        },
        "library_statement_coverage_by_generated_documents": covinfo,
        "runs_dispatched": nres, "truncated_by_wall_cap": truncated,
        "known_findings_matched": n_known,
        "harness_errors": len(herrs),
        "real_components": ["rtflite (all of it, from /repo/src)", "pydantic", "polars", "Pillow", "CPython"],
        "stubbed_components": [],
        "source_tree_sha256": boot.source_tree_hash(),
        "workers": core.n_workers(),
        "exhaustive": False,
    }
    core.write_evidence(PROP, opts.tier, opts.seed, "exploration", cov, [
        "a forked child of a process that has only imported rtflite is equivalent to a fresh interpreter "
        "(cross-checked on a seeded sample against true fresh interpreters under two hash seeds)",
        "an injected exception at a library call boundary outside cleanup regions is an acceptable model of "
        "'failed to encode' (see DESIGN 4); such operations are never judged on their own result",
        "seeded search samples the history space; a clean batch is evidence, not proof",
    ], wall_s, n_new)

"""Process bootstrap shared by every simulation process (DESIGN §3.1, §5).

Order matters:
  1. third-party dependencies are imported first (they keep their real locks),
  2. optionally ``threading.Lock`` / ``threading.RLock`` are bound to cooperative
     versions (C15 engine only) so that any lock *the library* creates, at import
     or later, is a scheduling point instead of a C-level block,
  3. ``rtflite`` and every submodule is imported from REPO_SRC and nothing else
     is done with it (no polars operation => no rayon pool => fork safe).
"""

from __future__ import annotations

import hashlib
import importlib
import os
import pkgutil
import sys

REPO_SRC = os.path.realpath(os.environ.get("VERIF_REPO_SRC", "/repo/src"))
PKG_DIR = os.path.join(REPO_SRC, "rtflite")
PKG_PREFIX = PKG_DIR + os.sep

_BOOTED = False


def bootstrap(coop_locks: bool = False):
    """Import rtflite (all submodules) from REPO_SRC. Idempotent."""
    global _BOOTED
    if _BOOTED:
        return sys.modules["rtflite"]

    # 1. dependencies first (real locks)
    import narwhals  # noqa: F401
    import packaging.version  # noqa: F401
    import PIL.ImageFont  # noqa: F401
    import polars  # noqa: F401
    import pydantic  # noqa: F401

    # 2. cooperative locks
    if coop_locks:
        from . import cooplock

        cooplock.install()

    # 3. the library under test
    if REPO_SRC in sys.path:
        sys.path.remove(REPO_SRC)
    sys.path.insert(0, REPO_SRC)
    for name in [m for m in sys.modules if m == "rtflite" or m.startswith("rtflite.")]:
        del sys.modules[name]
    import rtflite

    got = os.path.realpath(rtflite.__file__)
    if not got.startswith(PKG_PREFIX):
        raise RuntimeError(f"rtflite imported from {got}, expected under {PKG_DIR}")
    for mod in pkgutil.walk_packages(rtflite.__path__, "rtflite."):
        importlib.import_module(mod.name)
    _BOOTED = True
    return rtflite


def source_tree_hash() -> str:
    """sha256 over every file of the package (name + bytes), sorted."""
    h = hashlib.sha256()
    for root, dirs, files in os.walk(PKG_DIR):
        dirs[:] = sorted(d for d in dirs if d != "__pycache__")
        for f in sorted(files):
            if f.endswith((".pyc", ".pyo")):
                continue
            p = os.path.join(root, f)
            h.update(os.path.relpath(p, PKG_DIR).encode())
            h.update(b"\0")
            with open(p, "rb") as fh:
                h.update(hashlib.sha256(fh.read()).digest())
    return h.hexdigest()


def is_lib_code(code) -> bool:
    return code.co_filename.startswith(PKG_PREFIX)


def site_of(code) -> str:
    """Stable name of a library code object: relative file + qualname."""
    rel = code.co_filename[len(PKG_PREFIX):]
    return f"{rel}:{getattr(code, 'co_qualname', code.co_name)}"

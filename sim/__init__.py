"""Deterministic simulation with fault injection for rtflite (see /verif/DESIGN.md)."""

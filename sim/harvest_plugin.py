"""pytest plugin (used only by sim.corpus.harvest): records the constructor arguments of every RTFDocument
the repository's own test-suite builds, as pickles, so that they can serve as realistic corpus documents."""

import copy
import hashlib
import os
import pickle

_OUT = os.environ.get("VERIF_HARVEST_OUT")
_seen = set()
_n = [0]


def pytest_configure(config):
    if not _OUT:
        return
    import rtflite

    orig = rtflite.RTFDocument.__init__

    def recording_init(self, **data):
        try:
            blob = pickle.dumps(copy.deepcopy(data), protocol=4)
            h = hashlib.sha256(blob).hexdigest()[:20]
            if h not in _seen and len(blob) < 400_000:
                _seen.add(h)
                with open(os.path.join(_OUT, f"{_n[0]:04d}_{h}.pkl"), "wb") as fh:
                    fh.write(blob)
                _n[0] += 1
        except Exception:  # noqa: BLE001 - not picklable: skip
            pass
        return orig(self, **data)

    rtflite.RTFDocument.__init__ = recording_init

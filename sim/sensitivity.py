"""./check selftest sensitivity  (DESIGN §7).

Copies /repo/src to a scratch directory (under /dev/shm, removed afterwards),
applies one seeded defect at a time, points the engines at the copy through
VERIF_REPO_SRC and requires the corresponding check to report a violation;
negative controls (behaviour-preserving edits, legitimate repairs) must stay
silent.  Only this self-test honours VERIF_REPO_SRC; every command registered
in MANIFEST.json simulates /repo/src.
"""

from __future__ import annotations

import os
import shutil
import subprocess
import tempfile

from . import core

# (name, property, expect_violation, [(relative file, old, new), ...])
MUTANTS = [
    # ---------------- C14 -------------------------------------------------
    ("c14_drop_finally_clear", "C14", True, [
        ("rtflite/encoding/unified_encoder.py",
         "        finally:\n            # Never leak this document's colors into later encodes\n"
         "            color_service.clear_document_context()\n\n        return result\n",
         "        except ZeroDivisionError:\n            raise\n\n        color_service.clear_document_context()\n"
         "        return result\n"),
    ]),
    ("c14_global_context_again", "C14", True, [
        ("rtflite/services/color_service.py",
         "        return getattr(self._context, \"document_colors\", None)",
         "        return getattr(ColorService, \"_shared_colors\", None)"),
        ("rtflite/services/color_service.py",
         "        self._context.document_colors = used_colors",
         "        ColorService._shared_colors = used_colors"),
        ("rtflite/encoding/unified_encoder.py",
         "        finally:\n            # Never leak this document's colors into later encodes\n"
         "            color_service.clear_document_context()\n\n        return result\n",
         "        except ZeroDivisionError:\n            raise\n\n        color_service.clear_document_context()\n"
         "        return result\n"),
    ]),
    ("c14_init_writes_into_caller_body", "C14", True, [
        ("rtflite/encode.py",
         "            return body.model_copy(update={\"col_rel_width\": [1] * n_cols})",
         "            body.col_rel_width = [1] * n_cols\n            return body"),
    ]),
    ("c14_init_writes_into_caller_header", "C14", True, [
        ("rtflite/encode.py",
         "            return header.model_copy(update={\"col_rel_width\": list(body.col_rel_width)})",
         "            header.col_rel_width = list(body.col_rel_width)\n            return header"),
    ]),
    ("c14_processor_no_deepcopy", "C14", True, [
        ("rtflite/pagination/processor.py", "        page_attrs = deepcopy(base_attrs)", "        page_attrs = base_attrs"),
    ]),
    ("c14_renderer_no_header_copy", "C14", True, [
        ("rtflite/encoding/renderer.py", "            header_copy = deepcopy(header)", "            header_copy = header"),
    ]),
    ("c14_memoise_colours_by_id", "C14", True, [
        ("rtflite/services/color_service.py",
         "        used_colors = set()\n\n        # Helper function to extract colors from nested lists",
         "        _memo = self.__dict__.setdefault(\"_memo\", {})\n        if id(document) in _memo:\n"
         "            return _memo[id(document)]\n        used_colors = set()\n\n"
         "        # Helper function to extract colors from nested lists"),
        ("rtflite/services/color_service.py",
         "        return list(used_colors)\n\n    def set_document_context(",
         "        _memo[id(document)] = list(used_colors)\n        return _memo[id(document)]\n\n"
         "    def set_document_context("),
    ]),
    ("c14_inplace_frame_rename", "C14", True, [
        ("rtflite/services/encoding_service.py",
         "        original_df = df.clone()\n        processed_df = df.clone()\n",
         "        original_df = df.clone()\n        processed_df = df.clone()\n"
         "        if rtf_attrs.subline_by is not None and df.width > 2:\n"
         "            df.drop_in_place(df.columns[-1])\n"),
    ]),
    ("c14_hashseed_dependent_colour_order", "C14", True, [
        # colour table and indices follow set iteration order: two fresh interpreters disagree
        ("rtflite/services/color_service.py",
         "            sorted_colors = sorted(\n                validated_colors, key=lambda x: self._name_to_type[x]\n            )\n",
         "            sorted_colors = list(validated_colors)\n"),
        ("rtflite/services/color_service.py",
         "        sorted_colors = sorted(validated_colors, key=lambda x: self._name_to_type[x])\n\n        try:",
         "        sorted_colors = list(validated_colors)\n\n        try:"),
    ]),
    ("c14_control_lru_cache_fonts", "C14", False, [
        ("rtflite/strwidth.py",
         "    font_obj = ImageFont.truetype(str(font_path), size=size_param)",
         "    font_obj = _cached_font(str(font_path), size_param)"),
        ("rtflite/strwidth.py",
         "def get_string_width(",
         "import functools\n\n\n@functools.lru_cache(maxsize=None)\ndef _cached_font(path, size):\n"
         "    return ImageFont.truetype(path, size=size)\n\n\ndef get_string_width("),
    ]),
    # ---------------- C15 -------------------------------------------------
    ("c15_shared_context_attribute", "C15", True, [
        ("rtflite/services/color_service.py",
         "        return getattr(self._context, \"document_colors\", None)",
         "        return getattr(ColorService, \"_shared_colors\", None)"),
        ("rtflite/services/color_service.py",
         "        self._context.document_colors = used_colors",
         "        ColorService._shared_colors = used_colors"),
    ]),
    ("c15_module_scratch_list", "C15", True, [
        ("rtflite/encoding/renderer.py",
         "        page_elements = []\n\n        # 1. Page Break (except first page)",
         "        page_elements = _SCRATCH\n        del page_elements[:]\n\n        # 1. Page Break (except first page)"),
        ("rtflite/encoding/renderer.py",
         "class PageRenderer:", "_SCRATCH: list = []\n\n\nclass PageRenderer:"),
        ("rtflite/encoding/renderer.py",
         "        return page_elements\n\n    def _should_show", "        return list(page_elements)\n\n    def _should_show"),
    ]),
    ("c15_line_level_scratch_buffer", "C15", True, [
        # no library call between the statements: only line-level pre-emption reaches it
        ("rtflite/row.py",
         "        rtf = f\"{BORDER_CODES[self.style]}\\\\brdrw{self.width}\"\n",
         "        _BORDER_PARTS.clear()\n        _BORDER_PARTS.append(BORDER_CODES[self.style])\n"
         "        _BORDER_PARTS.append(f\"\\\\brdrw{self.width}\")\n        rtf = \"\".join(_BORDER_PARTS)\n"),
        ("rtflite/row.py", "class Border(BaseModel):", "_BORDER_PARTS: list = []\n\n\nclass Border(BaseModel):"),
    ]),
    ("c15_control_lock_serialises_encodes", "C15", False, [
        ("rtflite/encoding/engine.py",
         "        return self._encoder.encode(document)",
         "        with _ENCODE_LOCK:\n            return self._encoder.encode(document)"),
        ("rtflite/encoding/engine.py",
         "class RTFEncodingEngine:", "import threading\n\n_ENCODE_LOCK = threading.Lock()\n\n\nclass RTFEncodingEngine:"),
    ]),
    ("c15_control_shared_context_under_lock", "C15", False, [
        ("rtflite/services/color_service.py",
         "        return getattr(self._context, \"document_colors\", None)",
         "        return getattr(ColorService, \"_shared_colors\", None)"),
        ("rtflite/services/color_service.py",
         "        self._context.document_colors = used_colors",
         "        ColorService._shared_colors = used_colors"),
        ("rtflite/encoding/engine.py",
         "        return self._encoder.encode(document)",
         "        with _ENCODE_LOCK:\n            return self._encoder.encode(document)"),
        ("rtflite/encoding/engine.py",
         "class RTFEncodingEngine:", "import threading\n\n_ENCODE_LOCK = threading.RLock()\n\n\nclass RTFEncodingEngine:"),
    ]),
    # ---------------- C18 -------------------------------------------------
    ("c18_open_target_before_encoding", "C18", True, [
        ("rtflite/encode.py",
         "        print(target_path)\n        rtf_code = self.rtf_encode()\n        target_path.write_text(rtf_code, encoding=\"utf-8\")",
         "        print(target_path)\n        with target_path.open(\"w\", encoding=\"utf-8\") as fh:\n"
         "            fh.write(self.rtf_encode())"),
    ]),
    ("c18_convert_into_target_parent", "C18", True, [
        ("rtflite/encode.py",
         "                    output_dir=Path(convert_tmpdir),\n                    format=\"pdf\",",
         "                    output_dir=target_path.parent,\n                    format=\"pdf\","),
    ]),
    ("c18_mkdtemp_not_cleaned", "C18", True, [
        ("rtflite/encode.py",
         "        with tempfile.TemporaryDirectory() as tmpdir:\n            rtf_path = Path(tmpdir) / f\"{target_path.stem}.rtf\"\n"
         "            rtf_code = self.rtf_encode()\n            rtf_path.write_text(rtf_code, encoding=\"utf-8\")\n\n"
         "            with tempfile.TemporaryDirectory() as convert_tmpdir:\n                converted = converter.convert(\n"
         "                    input_files=rtf_path,\n                    output_dir=Path(convert_tmpdir),\n                    format=\"docx\",",
         "        if True:\n            tmpdir = tempfile.mkdtemp()\n            rtf_path = Path(tmpdir) / f\"{target_path.stem}.rtf\"\n"
         "            rtf_code = self.rtf_encode()\n            rtf_path.write_text(rtf_code, encoding=\"utf-8\")\n\n"
         "            with tempfile.TemporaryDirectory() as convert_tmpdir:\n                converted = converter.convert(\n"
         "                    input_files=rtf_path,\n                    output_dir=Path(convert_tmpdir),\n                    format=\"docx\","),
    ]),
    ("c18_extra_byte_written", "C18", True, [
        ("rtflite/encode.py",
         "        target_path.write_text(rtf_code, encoding=\"utf-8\")",
         "        target_path.write_text(rtf_code + \"\\n\", encoding=\"utf-8\")"),
    ]),
    ("c18_copy_left_in_cwd", "C18", True, [
        ("rtflite/encode.py",
         "                html_path = converted\n",
         "                html_path = converted\n                shutil.copy(str(html_path), Path.cwd() / html_path.name)\n"),
    ]),
    ("c18_nested_resource_dir_again", "C18", True, [
        ("rtflite/encode.py",
         "                    if resources_target.is_dir():\n                        shutil.rmtree(resources_target)\n", ""),
    ]),
    ("c18_malformed_result_accepted", "C18", True, [
        ("rtflite/encode.py",
         "                docx_path = converted\n                shutil.move(str(docx_path), target_path)",
         "                docx_path = converted\n                if Path(str(docx_path)).exists():\n"
         "                    shutil.move(str(docx_path), target_path)"),
        ("rtflite/encode.py",
         "                if not isinstance(converted, Path):\n                    raise TypeError(\n"
         "                        \"LibreOffice conversion returned an unexpected output for a \"\n"
         "                        \"single input file; expected `Path`, got object of type \"\n"
         "                        f\"{type(converted)!r} with value {converted!r}.\"\n                    )\n"
         "                docx_path = converted",
         "                docx_path = converted if converted is not None else rtf_path"),
    ]),
    ("c18_control_sibling_tempfile_replace", "C18", False, [
        ("rtflite/encode.py",
         "        target_path.write_text(rtf_code, encoding=\"utf-8\")",
         "        import os as _os\n        _tmp = target_path.with_name(target_path.name + \".part\")\n"
         "        _tmp.write_text(rtf_code, encoding=\"utf-8\")\n        _os.replace(_tmp, target_path)"),
    ]),
    ("c18_control_other_exception_type", "C18", False, [
        ("rtflite/encode.py",
         "                if not isinstance(converted, Path):\n                    raise TypeError(",
         "                if not isinstance(converted, Path):\n                    raise ValueError("),
    ]),
]


def apply_mutant(src_root: str, edits) -> None:
    for rel, old, new in edits:
        p = os.path.join(src_root, rel)
        with open(p, encoding="utf-8") as fh:
            s = fh.read()
        if s.count(old) < 1:
            raise core.HarnessError(f"mutant anchor not found in {rel}: {old[:60]!r}")
        s = s.replace(old, new, 1)
        with open(p, "w", encoding="utf-8") as fh:
            fh.write(s)


RUNS = {"C14": "1200", "C15": "600", "C18": "400"}


def main(opts) -> int:
    only = os.environ.get("VERIF_MUTANTS")
    names = set(only.split(",")) if only else None
    base = tempfile.mkdtemp(prefix="rtflite_sens_", dir="/dev/shm" if os.path.isdir("/dev/shm") else None)
    failures = []
    try:
        for name, prop, expect, edits in MUTANTS:
            if names and name not in names:
                continue
            scratch = os.path.join(base, name)
            shutil.copytree("/repo/src", os.path.join(scratch, "src"),
                            ignore=shutil.ignore_patterns("__pycache__"))
            try:
                apply_mutant(os.path.join(scratch, "src"), edits)
                env = dict(os.environ)
                env.pop("VERIF_BOOTED", None)
                env["VERIF_REPO_SRC"] = os.path.join(scratch, "src")
                env["VERIF_REPLAY_DIR"] = os.path.join(scratch, "replays")
                cp = subprocess.run([os.path.join(core.VERIF_DIR, "check"), prop, "--tier", "quick",
                                     "--runs", RUNS[prop], "--no-evidence"],
                                    env=env, capture_output=True, text=True, timeout=1800)
                viol = [l for l in cp.stdout.splitlines() if l.startswith("VIOLATION")]
                herr = [l for l in cp.stdout.splitlines() if l.startswith("HARNESS-ERROR")]
                got = bool(viol)
                status = "ok" if got == expect and (not herr or got) else "FAIL"
                classes = sorted({l.split("# ")[-1][:90] for l in viol})[:3]
                print(f"[{status}] {name}: expected {'violation' if expect else 'silence'}, got rc={cp.returncode} "
                      f"violations={len(viol)} harness_errors={len(herr)} {classes}")
                if status != "ok":
                    failures.append(name)
                    print(cp.stdout[-1500:])
                    print(cp.stderr[-1500:])
            finally:
                shutil.rmtree(scratch, ignore_errors=True)
    finally:
        shutil.rmtree(base, ignore_errors=True)
    print(f"sensitivity: {len(failures)} failure(s) {failures}")
    return 0 if not failures else 2

"""C15 engine: concurrent encodes do not interfere (schedules).

Real caller threads, one baton.  Each thread calls rtf_encode() on its own
document; a trace function hands control to the scheduler at every library
call (and, optionally, return) boundary; the scheduler follows an explicit or
seeded decision source and records every switch, so a run is replayed from its
decision list alone.  Oracle: each thread's outcome equals the reference of its
recipe computed alone in a pristine process.  See DESIGN §5.
"""

from __future__ import annotations

import _thread
import os
import shutil
import sys
import tempfile
import threading
import time

from . import core, recipes as R
from .core import HarnessError, cjson, digest

PROP = "C15"
WATCHDOG_S = 25.0


# --------------------------------------------------------------------------
# plan generation (pure)
# --------------------------------------------------------------------------


def gen_doc(rng, force_colour=True) -> dict:
    t = R.gen_toggles(rng)
    if force_colour and not t["palette"]:
        t["colours"] = True
        t["palette"] = rng.sample(R.COLORS, rng.choice([1, 2, 3]))
    if rng.random() < 0.7:
        t["small_nrow"] = False  # keep most documents short: the schedule space is the subject
    pal = R.gen_palette_of_specs(rng, t)
    return R.gen_recipe(rng, t, pal)


LATEX_TEXTS = ["\\alpha = 0.05", "\\beta-blocker", "\\pm 3", "x^2", "a_b", "\\mu g"]


def rich_doc(rng, variant: int, kind: str = "single", nfig: int = 2) -> dict:
    """A feature-rich document; `variant` 0/1 selects *contrasting* settings for
    everything a shared scratch value could carry from one thread to another:
    palette, text conversion on/off (with LaTeX-bearing text in both), borders,
    formats, justification, font sizes, column widths."""
    pals = (["red", "gold", "navy", "orchid3", "gray50"], ["cyan4", "tomato", "purple", "firebrick", "ivory4"],
            ["blue", "green", "darkorange", "white", "gold"])[variant % 3]
    conv = bool(variant % 2 == 0)
    fmt = ("b", "i")[variant % 2]
    just = ("l", "r")[variant % 2]
    size = (9, 11)[variant % 2]
    bstyle = ("single", "double")[variant % 2]

    words = ("Adverse Event Leading To Withdrawal Of Study Treatment And Any Other Treatment Emergent Event "
             "Reported During The Whole Observation Period").split()

    def frame(ncols, nrows):
        cols = []
        for j in range(ncols):
            vals = [rng.choice(LATEX_TEXTS + ["Drug A", "12.5", "n (%)"]) for _ in range(nrows)]
            if j == 0:
                # labels of graded length: whatever the column width and font, some sit just below a wrap
                # boundary, so a perturbed width measurement moves line counts and page breaks
                vals = [" ".join(words[: 3 + (i * 2 + variant) % (len(words) - 3)]) for i in range(nrows)]
            cols.append([f"c{j}", "str", vals])
        return {"cols": cols}

    def body(ncols):
        return {"text_color": [[pals[(j + 2) % len(pals)] for j in range(ncols)]], "text_background_color": pals[0],
                "border_color_top": [[pals[1]]], "border_color_left": [[pals[3]]], "border_color_bottom": [[pals[4]]], "text_convert": [[conv]], "text_format": [[fmt]],
                "text_justification": [[just]], "text_font_size": [[size]], "border_top": [[bstyle]],
                "col_rel_width": [1 + ((j + variant) % 3) for j in range(ncols)]}

    rec = {"kind": kind, "page": {"border_first": bstyle, "border_last": ("double", "single")[variant % 2],
                                  "orientation": ("portrait", "landscape", "portrait")[variant % 3],
                                  "nrow": (5, 6)[variant % 2] if kind != "figure" else 10,
                                  "page_title": ("all", "first")[variant % 2], "page_footnote": ("last", "all")[variant % 2]},
           "title": {"text": [rng.choice(LATEX_TEXTS), "Table 14.1." + str(variant)], "text_color": [pals[1]],
                     "text_convert": [conv], "text_format": [fmt]},
           "subline": None,
           "page_header": {"text": "Protocol " + rng.choice(LATEX_TEXTS), "text_convert": [conv], "text_color": [pals[2]]},
           "page_footer": {"text": "Confidential " + str(variant), "text_color": [pals[0]]},
           "footnote": {"text": [rng.choice(LATEX_TEXTS), "note"], "text_color": [[pals[2]]], "text_convert": [[conv]],
                        "as_table": kind != "figure"},
           "source": {"text": "Source: " + rng.choice(LATEX_TEXTS), "text_convert": [[conv]], "as_table": False}}
    if kind in ("pageby", "subline"):
        # long grouped tables on both threads: SAME column names and row count, different values
        labels = (["Alpha-0", "Alpha-1", "Alpha-2"], ["Beta-0", "Beta-1", "Beta-2", "Beta-3"])[variant % 2]
        nrows = 52
        key = sorted(labels[i * len(labels) // nrows] for i in range(nrows))
        inner = [f"{('S', 'T')[variant % 2]}{(i // (4 + variant)) % 3}" for i in range(nrows)]  # changes inside an outer group
        cols = [["c0", "str", key], ["c1", "str", inner],
                ["c2", "str", [rng.choice(LATEX_TEXTS + ["Drug A", "12.5"]) for _ in range(nrows)]],
                ["c3", "str", [str((i * 7 + variant) % 23) for i in range(nrows)]]]
        b = body(4)
        if kind == "pageby":
            b["page_by"] = ["c0", "c1"]  # nested keys: only the inner one changes at most boundaries
        else:
            b["subline_by"] = ["c0"]
        if kind == "pageby" and variant % 2 and rng.random() < 0.3:
            b["new_page"] = True
            b["pageby_row"] = "first_row"
        rec["page"]["nrow"] = (14, 17)[variant % 2]
        rec["dfs"], rec["bodies"] = [{"cols": cols}], [b]
        rec["headers"] = [{"text": ["Group", "Sub", "Term", "N"] if kind != "pageby" else ["Term", "N"],
                           "text_color": [[pals[0]]]}]
        rec["kind"] = "single"
        return rec
    if kind == "listcols":
        # list-valued cells (several terms / visit numbers per subject): rendered and measured through the data-frame
        # library's own text form; more than ten elements per cell, long strings, small pages
        nrows = (26, 31)[variant % 2]
        cols = [["c0", "str", [f"{('S', 'T')[variant % 2]}{i:02d}" for i in range(nrows)]],
                ["c1", "list_int", [list(range(variant, variant + 11 + (i * 3) % 9)) for i in range(nrows)]],
                ["c2", "list_str", [[f"Preferred term number {i} with a fairly long description text ({variant})", "Second",
                                     "Third"][: 1 + (i + variant) % 3] for i in range(nrows)]]]
        b = body(3)
        b["col_rel_width"] = [1, 2, 3] if variant % 2 else [1, 3, 2]
        rec["page"]["nrow"] = (12, 15)[variant % 2]
        rec["dfs"], rec["bodies"] = [{"cols": cols}], [b]
        rec["headers"] = [{"text": ["Subject", "Visits", "Terms"], "text_color": [[pals[0]]]}]
        rec["kind"] = "single"
        return rec
    if kind == "figure":
        # first image: a JPEG whose header announces a huge size (size-dependent code paths), then small PNGs
        files = [{"fmt": "jpeg", "w": 12000, "h": 9000, "seed": 100}] + \
                [{"fmt": "png", "w": 40 + 10 * i, "h": 30, "seed": 100 + i} for i in range(1, nfig)]
        rec["figure"] = {"files": files, "kw": {"fig_width": [3.0 + variant] * nfig}}
        rec["dfs"], rec["bodies"], rec["headers"] = [], [], "default"
        return rec
    nsec = 1 if kind == "single" else 2
    rec["dfs"], rec["bodies"], hdrs = [], [], []
    for s in range(nsec):
        n = 3 if (s + variant) % 2 == 0 else 2
        rec["dfs"].append(frame(n, (10, 12)[variant % 2] if s == 0 else 3))  # three or more pages
        rec["bodies"].append(body(n))
        hdrs.append([{"text": [rng.choice(LATEX_TEXTS) for _ in range(n)], "text_color": [[pals[0]]],
                      "text_convert": [[conv]], "border_bottom": [[bstyle]]}])
    rec["headers"] = hdrs[0] if kind == "single" else hdrs
    return rec


def gen_docs(rng, n: int) -> list:
    """Documents for n threads: contrasting rich documents, documents from one
    palette (overlapping component specs and images, possibly equal-valued
    copies), or independent seeded documents."""
    mode = rng.choice(["rich", "rich", "overlap", "overlap", "independent"])
    if mode == "rich":
        kinds = [rng.choice(["single", "single", "single", "multi", "multi", "figure", "figure", "pageby", "subline"])
                 for _ in range(n)]
        if rng.random() < 0.1:
            kinds = [rng.choice(["pageby", "subline"])] * n  # grouping code on every thread
        v0 = rng.randrange(2)
        return [rich_doc(rng, v0 + i, kinds[i]) for i in range(n)], mode
    if mode == "overlap":
        t = R.gen_toggles(rng)
        if not t["palette"] and rng.random() < 0.8:
            t["colours"] = True
            t["palette"] = rng.sample(R.COLORS, 3)
        t["small_nrow"] = rng.random() < 0.3
        if rng.random() < 0.4:
            t["figure"] = True
        pal = R.gen_palette_of_specs(rng, t)
        recs = [R.gen_recipe(rng, t, pal) for _ in range(n)]
        figs = [r for r in recs if r["kind"] == "figure"]
        if len(figs) >= 2 and rng.random() < 0.7:
            # same image in two documents (and one of them with a second image)
            figs[1]["figure"]["files"] = [dict(figs[0]["figure"]["files"][0])] + figs[1]["figure"]["files"][:1]
            figs[1]["figure"]["kw"].pop("fig_width", None)
        if rng.random() < 0.4:
            import json as _json

            recs[-1] = _json.loads(_json.dumps(recs[0]))  # an equal-valued document on another thread
        return recs, mode
    from . import corpus

    docs = [gen_doc(rng, force_colour=rng.random() < 0.9) for _ in range(n)]
    if corpus.FILES:
        for i in range(n):
            if rng.random() < 0.35:
                docs[i] = corpus.recipe_for(rng.choice(corpus.FILES))  # a document the repository's tests build
    return docs, mode


def gen_plan(rng) -> dict:
    n = 2 if rng.random() < 0.7 else 3
    recs, doc_mode = gen_docs(rng, n)
    share = None
    same_doc = None
    if doc_mode in ("overlap", "rich") and rng.random() < 0.5:
        # the caller re-uses component objects across the reports it encodes concurrently
        if doc_mode == "rich" and rng.random() < 0.7:
            for r in recs[1:]:
                for c in ("footnote", "source", "title", "page_header", "page_footer"):
                    if recs[0].get(c) is not None and r["kind"] == recs[0]["kind"] and rng.random() < 0.7:
                        r[c] = R_json_copy(recs[0][c])
        sp = rng.choice([0.5, 1.0])
        share = [{c: rng.random() < sp for c in SHARED_COMPONENTS} for _ in recs]
    if rng.random() < 0.08:
        same_doc = {str(n - 1): 0}  # two threads encode the very same document object
        recs[n - 1] = R_json_copy(recs[0])
    kind = rng.choice(["strata", "strata", "random", "pct", "one"])
    dec: dict = {"kind": kind}
    if kind == "strata":
        m = rng.choice([1, 2, 2, 3, 3])
        dec["points"] = sorted(rng.random() for _ in range(m))
        dec["targets"] = [rng.randrange(n) for _ in range(m)]
    elif kind == "random":
        dec["p"] = rng.choice([1e-3, 1e-2, 1e-1])
        dec["seed"] = rng.randrange(2 ** 32)
    elif kind == "pct":
        dec["prio"] = rng.sample(range(n), n)
        d = rng.choice([1, 2, 3])
        dec["points"] = sorted(rng.random() for _ in range(d))
    else:  # one pre-emption at a seeded point, other thread(s) run to completion
        dec["points"] = [rng.random()]
        dec["targets"] = [rng.randrange(n)]
    abort = None
    if rng.random() < 0.15:
        abort = {"thread": rng.randrange(n), "u": rng.random(),
                 "exc": rng.choice(["MemoryError", "KeyboardInterrupt", "ValueError"]), "k": None}
    return {"recipes": recs, "decider": dec, "first": rng.randrange(n), "doc_mode": doc_mode,
            "share": share, "same_doc": same_doc,
            "trace_mode": rng.choice(["call", "call", "callret", "line"]), "decisions": None, "abort": abort}


# --------------------------------------------------------------------------
# scheduler (runs inside the simulation child)
# --------------------------------------------------------------------------


class SimDeadlock(Exception):
    pass


LISTING_PROBE_CAP = 120000
PER_SPEC_CAP = 8000  # schedules per (group, trace mode, order) of the systematic one-pre-emption sweep


def nthreads_of(plan: dict) -> int:
    """Threads = the first n recipes; the rest (plan['chain']: thread -> recipe indices) are documents a worker
    thread encodes AFTER its first one, as a pooled worker does."""
    chained = sum(len(v) for v in (plan.get("chain") or {}).values())
    return len(plan["recipes"]) - chained


class Sched:
    def __init__(self, n: int, plan: dict, total_steps_hint: int):
        self.n = n
        self.gates = [_thread.allocate_lock() for _ in range(n)]
        for g in self.gates:
            g.acquire()
        self.main_gate = _thread.allocate_lock()
        self.main_gate.acquire()
        self.state = ["ready"] * n  # ready | blocked | done
        self.blocked_on: dict = {}
        self.idents: dict = {}
        self.current = None
        self.step = 0
        self.decisions: list = []  # [step, to_thread]
        self.switch_log: list = []  # (step, from, to, site_from, in_ctx)
        self.lock_yields = 0
        self.deadlock = None
        self.last_event = time.monotonic()
        self.inside = [False] * n  # thread is inside rtf_encode
        self.both_inside_switches = 0
        self.thread_steps = [0] * n
        self.sites_seen: set = set()
        self.collect_sites = plan.get("collect_sites", False)
        self.finish_pref = list(plan.get("finish_pref") or [])
        self.first = plan.get("first", 0)
        self.writer_sites = set(plan.get("writer_sites") or [])
        self.hot_sites = set(plan.get("hot_sites") or [])
        self.list_hot = bool(plan.get("list_hot_steps"))
        self.hot_steps: list = []
        self.priority_steps: list = []
        self.dirty_probe = None
        self.sig_probe = None  # callable() -> shared-state signature (listing runs only)
        self._last_sig = None
        dec = plan["decider"]
        self.kind = dec["kind"] if plan.get("decisions") is None else "explicit"
        self.explicit = {int(s): int(t) for s, t in (plan.get("decisions") or [])}
        self._after_hot = 0
        self.after_hot_steps: list = []
        self.chain_switch = plan.get("chain_switch")  # {"to": thread, "then": [[steps later, thread], ...]}
        self._chain_done = False
        hint = max(1, total_steps_hint)
        if self.kind in ("strata", "one"):
            self.points = {}
            for u, tgt in zip(dec["points"], dec["targets"]):
                self.points[1 + int(u * hint)] = tgt
        elif self.kind == "random":
            import random

            self.rng = random.Random(dec["seed"])
            self.p = dec["p"]
        elif self.kind == "pct":
            self.prio = list(dec["prio"])
            self.points = {1 + int(u * hint) for u in dec["points"]}
            self.low = -1

    # -- identification ---------------------------------------------------
    def index_of_current(self):
        return self.idents.get(_thread.get_ident())

    # -- decisions ----------------------------------------------------------
    def runnable(self):
        return [i for i in range(self.n) if self.state[i] == "ready"]

    def _other(self, i, want=None):
        r = [j for j in self.runnable() if j != i]
        if not r:
            return None
        if want is not None and want in r:
            return want
        return r[(want or 0) % len(r)] if want is not None else r[0]

    def choose(self, i):
        s = self.step
        k = self.kind
        if k == "explicit":
            t = self.explicit.get(s)
            if t is not None and t != i and self.state[t] == "ready":
                return t
            return i
        if k in ("strata", "one"):
            if s in self.points:
                o = self._other(i, self.points[s])
                return i if o is None else o
            return i
        if k == "random":
            if self.rng.random() < self.p:
                r = [j for j in self.runnable() if j != i]
                if r:
                    return r[self.rng.randrange(len(r))]
            return i
        if k == "pct":
            if s in self.points:
                self.prio[i] = self.low
                self.low -= 1
            r = self.runnable()
            best = max(r, key=lambda j: self.prio[j])
            return best
        return i

    def next_after_finish_or_block(self, i):
        r = self.runnable()
        if not r:
            return None
        if self.kind == "pct":
            return max(r, key=lambda j: self.prio[j])
        for j in self.finish_pref:  # explicit order of resumption, if the plan gives one
            if j in r:
                return j
        # default policy: lowest index ready thread
        return r[0]

    # -- events ---------------------------------------------------------------
    def boundary(self, i, frame, ev):
        self.step += 1
        self.thread_steps[i] += 1
        self.last_event = time.monotonic()
        if self.list_hot and i == self.first and ev == "call" and self.writer_sites and not self.decisions:
            from . import boot

            if boot.site_of(frame.f_code) in self.writer_sites:
                # entry of a function that writes process-shared state: "about to touch it"
                self.hot_steps.append(self.step)
                self.priority_steps.append(self.step)
        if self.list_hot and i == self.first and ev == "call" and not self.decisions and 0 < self._after_hot <= 6 \
                and len(self.after_hot_steps) < 400 and (not self.hot_steps or self.hot_steps[-1] != self.step):
            # the first few boundaries after this thread has left the hot statements: "it has written shared state
            # and carries on" - where a second pre-emption has to fall for lost-update style races
            self.after_hot_steps.append(self.step)  # kept apart: used only when the hot region is small
            self._after_hot += 1
        if self.list_hot and i == self.first and ev == "line" and not self.decisions:
            self._after_hot = 1
            self.hot_steps.append(self.step)
            if len(self.hot_steps) > LISTING_PROBE_CAP:
                pass  # the probes cost about a millisecond each: priorities come from the first part of the encode
            elif self.dirty_probe is not None and self.dirty_probe(i):
                self.priority_steps.append(self.step)  # a component object is different from its baseline right now
            elif self.sig_probe is not None:
                cur = self.sig_probe()
                if self._last_sig is not None and cur != self._last_sig:
                    # first statement boundary after a write to process-shared state: the window between
                    # "this thread has written" and "this thread reads again" starts here
                    self.priority_steps.append(self.step)
                self._last_sig = cur
        if self.collect_sites:
            from . import boot

            self.sites_seen.add(boot.site_of(frame.f_code))
        nxt = self.choose(i)
        if nxt != i:
            self.switch(i, nxt, frame)

    def chain_boundary(self, i):
        """A worker thread has finished one document and is about to pick up its next one."""
        self.step += 1
        self.thread_steps[i] += 1
        self.last_event = time.monotonic()
        cs = self.chain_switch
        if cs and not self._chain_done and self.kind == "explicit" and self.state[cs["to"]] == "ready" and cs["to"] != i:
            self._chain_done = True
            for j, t in cs.get("then") or []:
                self.explicit[self.step + int(j)] = int(t)
            self.switch(i, cs["to"])
            return
        nxt = self.choose(i)
        if nxt != i:
            self.switch(i, nxt)

    def switch(self, i, nxt, frame=None):
        from . import boot, state

        site = (boot.site_of(frame.f_code) + ":" + str(frame.f_lineno)) if frame is not None else "?"
        in_ctx = None
        try:
            in_ctx = state.s1_digest().get("colour_ctx") not in (None, "n/a")
        except Exception:
            pass
        if self.inside[i] and self.inside[nxt]:
            self.both_inside_switches += 1
        self.decisions.append([self.step, nxt])
        self.switch_log.append([self.step, i, nxt, site, in_ctx])
        self.current = nxt
        self.gates[nxt].release()
        self.gates[i].acquire()

    def start(self, first):
        self.current = first
        self.gates[first].release()

    def finish(self, i):
        self.state[i] = "done"
        self.last_event = time.monotonic()
        nxt = self.next_after_finish_or_block(i)
        if nxt is None:
            if any(s == "blocked" for s in self.state):
                self.deadlock = {str(j): repr(self.blocked_on.get(j)) for j in range(self.n)
                                 if self.state[j] == "blocked"}
            self.main_gate.release()
            return
        self.current = nxt
        self.gates[nxt].release()

    # -- cooperative locks -----------------------------------------------------
    def block_on(self, i, lock):
        self.lock_yields += 1
        self.state[i] = "blocked"
        self.blocked_on[i] = lock
        nxt = self.next_after_finish_or_block(i)
        if nxt is None:
            self.deadlock = {str(j): repr(self.blocked_on.get(j)) for j in range(self.n)
                             if self.state[j] == "blocked"}
            self.state[i] = "done"
            self.main_gate.release()
            raise SimDeadlock("all simulated threads are blocked")
        self.decisions.append([self.step, nxt])
        self.current = nxt
        self.gates[nxt].release()
        self.gates[i].acquire()

    def lock_released(self, lock):
        for j, l in list(self.blocked_on.items()):
            if l is lock and self.state[j] == "blocked":
                self.state[j] = "ready"
                del self.blocked_on[j]


# --------------------------------------------------------------------------
# execution (pristine child)
# --------------------------------------------------------------------------


SHARED_COMPONENTS = ["footnote", "source", "title", "subline", "page_header", "page_footer", "page", "body", "header"]


def build_docs(plan: dict, figdir: str) -> list:
    """One document per thread.  plan['share'][i] (component -> bool) lets documents with equal component
    specs hold the SAME component object (a caller re-using its RTFFootnote, RTFPage ... across reports);
    plan['same_doc'][i] = j makes thread i encode the very document object of thread j."""
    recs = plan["recipes"]
    share = list(plan.get("share") or [None] * len(recs))
    share += [None] * (len(recs) - len(share))
    same = plan.get("same_doc") or {}
    pool = R.Pool()
    docs: list = []
    for i, r in enumerate(recs):
        j = same.get(str(i), same.get(i))
        if j is not None and j < len(docs):
            docs.append(docs[j])
            continue
        holder = {}

        def construct(r=r, holder=holder, i=i):
            holder["doc"], _ = R.build(r, pool if share[i] else None, share[i], figdir)
            return "constructed"

        o = R.outcome_of(construct)
        docs.append(holder.get("doc") if o["k"] == "ok" else None)
    return docs


def _quick_obj(o):
    d = getattr(o, "__dict__", None)
    if not isinstance(d, dict):
        return id(o)
    return tuple([(id(v), len(v), tuple([id(x) for x in v[:8]])) if type(v) in (list, tuple) else id(v)
                  for v in d.values()])


def doc_component_quick(doc, attrs) -> tuple:
    """Identity-level fingerprint of the component objects (and of the caller's frame): a few microseconds; used as
    a pre-filter for doc_component_dumps, which hashes the values."""
    out = []
    for attr in attrs:
        v = getattr(doc, attr, None)
        if attr == "df":
            fr = v if isinstance(v, (list, tuple)) else [v]
            out.append(tuple([(id(f), tuple(f.columns), f.shape) for f in fr if f is not None]))
        else:
            out.append(_quick_obj(v))
    return tuple(out)


def doc_component_dumps(doc, attrs=("rtf_body", "rtf_column_header", "rtf_page", "rtf_title", "rtf_subline",
                                    "rtf_page_header", "rtf_page_footer", "rtf_footnote", "rtf_source")) -> tuple:
    from . import state

    out = []
    for attr in attrs:
        try:
            if attr == "df":
                # the caller's frame(s): names, shape, types and per-column flags (cheap; values are judged elsewhere)
                v = getattr(doc, "df", None)
                fr = v if isinstance(v, (list, tuple)) else [v]
                out.append(tuple((tuple(f.columns), tuple(f.shape), tuple(str(d) for d in f.dtypes),
                                  tuple(sorted((k, tuple(sorted(fl.items()))) for k, fl in f.flags.items())))
                                 for f in fr if f is not None))
                continue
            out.append(state.component_dump(getattr(doc, attr, None)))
        except Exception:  # noqa: BLE001
            out.append("?")
    return tuple(out)


def exec_schedule(arg) -> dict:
    from . import boot, cooplock
    from .trace import EXC_TYPES, in_cleanup

    boot.bootstrap(coop_locks=True)
    plan = arg["plan"]
    refs = arg["refs"]
    figdir = arg["figdir"]
    os.makedirs(figdir, exist_ok=True)
    R.apply_ambient(R.plan_ambient(plan["recipes"]))
    if plan.get("cold"):
        # a cold process: the threads' encodes are the first in the process (first-use initialisation, lazily
        # loaded resources and one-time registrations all happen under the scheduler)
        R.import_all()
    else:
        R.warmup()
    recs = plan["recipes"]
    n = nthreads_of(plan)
    chain = {int(k): list(v) for k, v in (plan.get("chain") or {}).items()}
    docs = build_docs(plan, figdir)
    tmode = plan.get("trace_mode")
    mult = 2 if tmode == "callret" else 1

    def nbound(ref):
        if tmode == "line":
            return (ref.get("ncalls") or 0) + (ref.get("nlines") or 0)
        return (ref.get("ncalls") or 0) * mult

    hint = sum(nbound(refs[str(i)]) for i in range(len(recs)))
    sched = Sched(n, plan, hint)
    if plan.get("list_hot_steps"):
        from . import state as _state

        _fs = _state.FastSig()
        _st = {"s0": None, "full": None, "ver": 0, "n": 0}

        def _probe():
            # cheap tier at every statement (identity / length of every slot), the full signature every 8th;
            # returns a version number that moves whenever either tier has changed
            _st["n"] += 1
            s0 = _fs.sig0()
            if _st["s0"] is not None and s0 != _st["s0"]:
                _st["ver"] += 1
            _st["s0"] = s0
            if _st["n"] % 8 == 0:
                f = _fs.sig()
                if _st["full"] is not None and f != _st["full"]:
                    _st["ver"] += 1
                _st["full"] = f
            return _st["ver"]

        sched.sig_probe = _probe
    if plan.get("list_hot_steps") and plan.get("check_dirty"):
        shl = plan.get("share") or [None] * n
        attrs = [tuple(R._COMP_ARG[c] for c in SHARED_COMPONENTS if shl[i] and shl[i].get(c) and c in R._COMP_ARG)
                 + (("df",) if shl[i] and shl[i].get("df") else ()) for i in range(n)]
        bases = [doc_component_dumps(d, attrs[i]) if d is not None else None for i, d in enumerate(docs)]
        qbases = [doc_component_quick(d, attrs[i]) if d is not None else None for i, d in enumerate(docs)]
        sched.dirty_probe = lambda i: (docs[i] is not None and bool(attrs[i])
                                       and doc_component_quick(docs[i], attrs[i]) != qbases[i]
                                       and doc_component_dumps(docs[i], attrs[i]) != bases[i])
    want_ret = tmode == "callret"
    want_line = tmode == "line"
    hot = set(plan.get("hot_sites") or []) if tmode == "hot" else None
    outcomes: list = [None] * n
    chained_outcomes: dict = {}
    abort = plan.get("abort")
    abort_fired = [None]

    def make_tracer(i):
        excf = set()
        ab = abort if abort and abort["thread"] == i else None
        abk = None
        if ab:
            abk = ab.get("k")
            if abk is None:
                nc = nbound(refs[str(i)])
                abk = 1 + int(ab["u"] * nc) if nc else None

        def local(frame, event, a):
            if event == "return":
                if id(frame) in excf:
                    excf.discard(id(frame))
                else:
                    sched.boundary(i, frame, "return")
            elif event == "exception":
                excf.add(id(frame))
            return local

        def local_line(frame, event, a):
            # pre-emption between statements of one library function
            if event == "line":
                sched.boundary(i, frame, "line")
            return local_line

        def tracer(frame, event, a):
            if event != "call" or not boot.is_lib_code(frame.f_code):
                return None
            sched.boundary(i, frame, "call")
            if abk is not None and abort_fired[0] is None and sched.thread_steps[i] >= abk and not in_cleanup(frame):
                abort_fired[0] = {"thread": i, "k": sched.thread_steps[i], "site": boot.site_of(frame.f_code),
                                  "exc": ab["exc"]}
                raise EXC_TYPES[ab["exc"]]("injected " + ab["exc"])
            if want_ret:
                frame.f_trace_lines = False
                return local
            if want_line:
                return local_line
            if hot is not None and boot.site_of(frame.f_code) in hot:
                return local_line
            return None

        return tracer

    def worker(i):
        sched.idents[_thread.get_ident()] = i
        sched.gates[i].acquire()
        try:
            if docs[i] is None:
                outcomes[i] = {"k": "construct_failed"}
            else:
                tr = make_tracer(i)
                sched.inside[i] = True
                sys.settrace(tr)
                try:
                    o = R.outcome_of(docs[i].rtf_encode)
                finally:
                    sys.settrace(None)
                    sched.inside[i] = False
                outcomes[i] = o
            for ri in chain.get(i, []):
                # the same worker thread picks up its next document (pooled workers): a scheduling point of its own
                sched.chain_boundary(i)
                if docs[ri] is None:
                    chained_outcomes[(i, ri)] = {"k": "construct_failed"}
                    continue
                sched.inside[i] = True
                sys.settrace(tr if docs[i] is not None else make_tracer(i))
                try:
                    chained_outcomes[(i, ri)] = R.outcome_of(docs[ri].rtf_encode)
                finally:
                    sys.settrace(None)
                    sched.inside[i] = False
        except BaseException as e:  # noqa: BLE001
            outcomes[i] = {"k": "harness", "type": type(e).__name__, "msg": str(e)[:200]}
        finally:
            sched.finish(i)

    cooplock.SCHED = sched
    if (plan.get("launch") or "plain") == "ctxcopy":
        # asyncio.to_thread style: each thread runs inside its own copy of the launching (main) context,
        # which has already encoded once (warmup above)
        import contextvars

        ctxs = [contextvars.copy_context() for _ in range(n)]
        threads = [threading.Thread(target=ctxs[i].run, args=(worker, i), daemon=True, name=f"sim-{i}")
                   for i in range(n)]
    else:
        threads = [threading.Thread(target=worker, args=(i,), daemon=True, name=f"sim-{i}") for i in range(n)]
    for t in threads:
        t.start()
    # wait until every worker has registered and parked (they block on their gates)
    t_reg = time.monotonic()
    while len(sched.idents) < n:
        if time.monotonic() - t_reg > 10:
            raise HarnessError("simulated threads failed to start")
        time.sleep(0.0005)
    sched.start(plan["first"] % n)
    hung = False
    while True:
        if sched.main_gate.acquire(timeout=1.0):
            break
        if time.monotonic() - sched.last_event > WATCHDOG_S:
            hung = True
            break
    cooplock.SCHED = None
    if hung:
        raise HarnessError(f"baton holder (thread {sched.current}) produced no event for {WATCHDOG_S}s "
                           f"at step {sched.step}")
    out_threads = []
    for i in range(n):
        o = outcomes[i] or {"k": "none"}
        text = o.pop("_text", None) if isinstance(o, dict) else None
        ent = {"thread": i, "outcome": R.strip(o), "steps": sched.thread_steps[i]}
        ref = refs[str(i)]["encode"]
        if text is not None and ref is not None and not R.same_outcome(ent["outcome"], ref):
            ent["text"] = text
        out_threads.append(ent)
    for (i, ri), o in sorted(chained_outcomes.items()):
        text = o.pop("_text", None) if isinstance(o, dict) else None
        ent = {"thread": i, "doc": ri, "outcome": R.strip(o), "steps": sched.thread_steps[i]}
        ref = refs[str(ri)]["encode"]
        if text is not None and ref is not None and not R.same_outcome(ent["outcome"], ref):
            ent["text"] = text
        out_threads.append(ent)
    return {
        "threads": out_threads,
        "decisions": sched.decisions,
        "switch_log": sched.switch_log,
        "steps": sched.step,
        "lock_yields": sched.lock_yields,
        "deadlock": sched.deadlock,
        "both_inside_switches": sched.both_inside_switches,
        "abort_fired": abort_fired[0],
        "coop_locks_created": dict(cooplock.CREATED),
        "sites_seen": sorted(sched.sites_seen) if sched.collect_sites else None,
        "hot_steps": sched.hot_steps if sched.list_hot else None,
        "priority_steps": sched.priority_steps if sched.list_hot else None,
        "after_hot_steps": sched.after_hot_steps if sched.list_hot else None,
    }


PROFILE_GRAIN = 64
COMPONENT_GRAIN = 16
TIER0_BOUNDARIES = 25000


def profile_hot(arg) -> dict:
    """Greybox targeting: which library functions write process-shared state
    while a document is encoded?  Library call/return boundaries compare a cheap
    signature of all module globals / class attributes / mutable function
    defaults under rtflite.*; a change is attributed to the library function
    that was executing.  Runs in a pristine child; each document is encoded
    twice (first use may initialise lazily, later uses show the steady state).

    Two passes keep it cheap: pass 1 (windows=None) compares the signature every
    PROFILE_GRAIN boundaries and returns the windows in which it changed; pass 2
    repeats the identical process in another pristine child and compares at every
    boundary inside those windows only."""
    from . import boot, state

    boot.bootstrap(coop_locks=True)
    R.apply_ambient(R.plan_ambient(arg["recipes"]))
    if arg.get("cold"):
        R.import_all()
    else:
        R.warmup()
    figdir = arg["figdir"]
    os.makedirs(figdir, exist_ok=True)
    windows = arg.get("windows")  # None or {"<ri>:<rep>": [window indices]}
    fs = state.FastSig()
    hot: dict = {}
    # process-global state that is changed and restored *within one library frame* is invisible at
    # call/return boundaries: hook the well-known mutators and attribute their use to the library
    # function (and its caller) on whose behalf they run
    mutator_hits = _install_mutator_hooks(hot, boot)
    flagged: dict = {}
    all_docs = build_docs({"recipes": arg["recipes"], "share": arg.get("share")}, figdir)
    comp_dirty = [0]
    for ri, recipe in enumerate(arg["recipes"]):
        doc = all_docs[ri]
        if doc is None:
            continue
        for rep in range(2):
            key = f"{ri}:{rep}"
            sh = (arg.get("share") or [None] * len(arg["recipes"]))[ri]
            comp_attrs = tuple(R._COMP_ARG[c] for c in SHARED_COMPONENTS if sh and sh.get(c) and c in R._COMP_ARG) \
                + (("df",) if sh and sh.get("df") else ())
            comp_base = doc_component_dumps(doc, comp_attrs) if comp_attrs else None
            comp_qbase = doc_component_quick(doc, comp_attrs) if comp_attrs else None
            fine = None
            if windows is not None:
                fine = set()
                for w in windows.get(key, []):
                    fine.update((w - 1, w, w + 1))
            stack: list = []
            last = [fs.sig()]
            last0 = [fs.sig0()]
            n = [0]

            def check(code, caller=None):
                n[0] += 1
                if comp_base is not None and (n[0] % COMPONENT_GRAIN == 0 or comp_attrs == ("df",)) \
                        and doc_component_quick(doc, comp_attrs) != comp_qbase \
                        and doc_component_dumps(doc, comp_attrs) != comp_base:
                    # a component object of the document is (perhaps only transiently) different from what the
                    # caller handed in: every function on the stack right now lies inside that window
                    comp_dirty[0] += 1
                    for c in stack[-3:]:
                        # hot (their statements are pre-emption points), but not "writers": their every call is
                        # not a priority point - the listing run finds the dirty windows themselves
                        hot.setdefault(boot.site_of(c), 0)
                w = n[0] // PROFILE_GRAIN
                if fine is None:
                    if n[0] % PROFILE_GRAIN:
                        # between the full comparisons: a cheap signature at EVERY boundary (of the first
                        # TIER0_BOUNDARIES of an encode - the same functions run again and again afterwards), so
                        # that a change that is undone a few boundaries later (pop ... store) still flags its window
                        if n[0] > TIER0_BOUNDARIES:
                            return
                        c0 = fs.sig0()
                        if c0 != last0[0]:
                            last0[0] = c0
                            if not flagged.get(key) or flagged[key][-1] != w:
                                flagged.setdefault(key, []).append(w)
                        return
                elif w not in fine:
                    if n[0] % PROFILE_GRAIN == 0:
                        last[0] = fs.sig()  # keep the baseline current outside the fine windows
                    return
                cur = fs.sig()
                if cur != last[0]:
                    last[0] = cur
                    if fine is None:
                        flagged.setdefault(key, []).append(w)
                    elif code is not None:
                        k = boot.site_of(code)
                        hot[k] = hot.get(k, 0) + 1
                        if caller is not None:
                            # the window "after the write, before the caller's next read" lies in the caller
                            kc = boot.site_of(caller)
                            hot.setdefault(kc, 0)

            def local(frame, event, a):
                if event == "return":
                    check(frame.f_code, stack[-2] if len(stack) > 1 else None)
                    if stack:
                        stack.pop()
                return local

            def tracer(frame, event, a):
                if event != "call" or not boot.is_lib_code(frame.f_code):
                    return None
                check(stack[-1] if stack else None, stack[-2] if len(stack) > 1 else None)
                stack.append(frame.f_code)
                frame.f_trace_lines = False
                return local

            sys.settrace(tracer)
            try:
                R.outcome_of(doc.rtf_encode)
            finally:
                sys.settrace(None)
            if fine is None and fs.sig() != last[0]:
                flagged.setdefault(key, []).append(n[0] // PROFILE_GRAIN)
                flagged[key].append(n[0] // PROFILE_GRAIN + 1)
    return {"hot": hot, "flagged": flagged, "slots": len(fs.slots), "mutators": dict(mutator_hits),
            "component_dirty": comp_dirty[0]}


def _install_mutator_hooks(hot: dict, boot) -> dict:
    import contextlib
    import decimal
    import locale
    import random as _random
    import warnings

    hits: dict = {}

    def note(label):
        f = sys._getframe(2)
        found = 0
        while f is not None and found < 2:
            if boot.is_lib_code(f.f_code):
                k = boot.site_of(f.f_code)
                hot[k] = hot.get(k, 0) + (1 if found == 0 else 0)
                found += 1
            f = f.f_back
        if found:
            hits[label] = hits.get(label, 0) + 1

    def wrap(owner, name, label):
        try:
            orig = getattr(owner, name)
        except AttributeError:
            return

        def hooked(*a, _orig=orig, **k):
            note(label)
            return _orig(*a, **k)

        try:
            setattr(owner, name, hooked)
        except (AttributeError, TypeError):
            pass

    wrap(warnings.catch_warnings, "__enter__", "warnings.catch_warnings")
    for n in ("simplefilter", "filterwarnings", "resetwarnings"):
        wrap(warnings, n, "warnings." + n)
    for n in ("chdir", "putenv", "unsetenv", "umask"):
        wrap(os, n, "os." + n)
    for n in ("__setitem__", "__delitem__"):
        wrap(type(os.environ), n, "os.environ")
    wrap(locale, "setlocale", "locale.setlocale")
    for n in ("setcontext", "localcontext"):
        wrap(decimal, n, "decimal." + n)
    wrap(_random, "seed", "random.seed")
    for n in ("setrecursionlimit", "setswitchinterval"):
        wrap(sys, n, "sys." + n)
    for cm in ("redirect_stdout", "redirect_stderr"):
        wrap(getattr(contextlib, cm), "__enter__", "contextlib." + cm)
    import logging

    for n in ("setLevel", "addHandler", "removeHandler", "addFilter", "removeFilter"):
        wrap(logging.Logger, n, "logging.Logger." + n)
    for n in ("disable", "basicConfig", "setLoggerClass", "captureWarnings"):
        wrap(logging, n, "logging." + n)
    # attributes of modules OUTSIDE the package that are set while library code runs (a third-party switch such as
    # PIL.ImageFile.LOAD_TRUNCATED_IMAGES or sys.stdout flipped for the duration of a call): a module whose class
    # is a ModuleType subclass can report every assignment
    import types as _types

    class _ReportingModule(_types.ModuleType):
        def __setattr__(self, name, value):
            if not name.startswith("__"):
                note("module attribute " + self.__name__ + "." + name)
            _types.ModuleType.__setattr__(self, name, value)

        def __delattr__(self, name):
            note("module attribute " + self.__name__ + "." + name)
            _types.ModuleType.__delattr__(self, name)

    for mname, mod in list(sys.modules.items()):
        if mod is None or type(mod) is not _types.ModuleType:
            continue
        top = mname.split(".", 1)[0]
        if top in ("rtflite", "sim", "builtins", "importlib", "_frozen_importlib", "_frozen_importlib_external",
                   "threading", "_thread", "types"):
            continue
        try:
            mod.__class__ = _ReportingModule
        except TypeError:
            pass
    try:
        import polars as pl

        wrap(pl.Config, "__enter__", "polars.Config")
        for n in dir(pl.Config):
            if n.startswith("set_"):
                wrap(pl.Config, n, "polars.Config." + n)
        wrap(pl.StringCache, "__enter__", "polars.StringCache")
        wrap(pl, "enable_string_cache", "polars.enable_string_cache")
    except Exception:  # noqa: BLE001
        pass
    return hits


def find_hot_sites(recipes: list, figdir: str, share=None, cold=False) -> dict:
    p1 = core.run_in_child(profile_hot, {"recipes": recipes, "figdir": figdir, "share": share, "cold": cold})
    hot = dict(p1["hot"])  # from the mutator hooks and the component-dirty probe (complete in pass 1)
    if p1.get("component_dirty"):
        hot["<component-dirty>"] = p1["component_dirty"]
    if p1["flagged"]:
        p2 = core.run_in_child(profile_hot, {"recipes": recipes, "figdir": figdir, "windows": p1["flagged"],
                                             "share": share, "cold": cold})
        for k, v in p2["hot"].items():
            hot[k] = max(hot.get(k, 0), v)
    return hot


# --------------------------------------------------------------------------
# judging (pure)
# --------------------------------------------------------------------------


def judge(plan: dict, res: dict, refs: dict) -> list:
    out = []
    ab = res.get("abort_fired")
    if res.get("deadlock"):
        out.append({"class": "deadlock", "thread": None, "observed": res["deadlock"], "expected": None})
    for ent in res["threads"]:
        i = ent["thread"]
        if ab and ab["thread"] == i:
            continue  # an aborted thread is never judged on its own result
        ref = refs[str(ent.get("doc", i))]
        oc = ent["outcome"]
        if ref["construct"]["k"] != "ok":
            continue
        re_ = ref["encode"]
        if oc["k"] in ("harness", "none", "construct_failed"):
            out.append({"class": "thread_did_not_finish", "thread": i, "observed": oc, "expected": re_})
            continue
        if not R.same_outcome(oc, re_):
            if re_["k"] == "ok" and oc["k"] == "ok":
                cls = "output_differs"
            elif re_["k"] == "ok":
                cls = "exception_vs_ok"
            elif oc["k"] == "ok":
                cls = "ok_vs_exception"
            else:
                cls = "other_exception"
            v = {"class": cls, "thread": i, "observed": oc, "expected": re_}
            if "doc" in ent:
                v["doc"] = ent["doc"]  # a later document of a reused worker thread
            if "text" in ent:
                v["_text"] = ent["text"]
            out.append(v)
    for v in out:
        v["nthreads"] = nthreads_of(plan)
        v["paths"] = [r["kind"] for r in plan["recipes"]]
        v["after_abort"] = bool(ab)
        v["switches"] = len(res["decisions"])
    return out


def signature(v: dict) -> dict:
    return {"class": v["class"], "nthreads": v["nthreads"],
            "victim_path": v["paths"][v.get("doc", v["thread"])] if v.get("thread") is not None else None,
            "after_abort": v["after_abort"]}


# --------------------------------------------------------------------------
# references, running, minimising, replay
# --------------------------------------------------------------------------


class RefCache:
    def __init__(self, figdir, server=None):
        self.figdir = figdir
        self.cache: dict = {}
        self.server = server  # zygote under another PYTHONHASHSEED (core.RefServer) or None

    def get(self, recipe, want_text=False, want_sites=False):
        h = R.recipe_hash(recipe)
        if not want_text and not want_sites and h in self.cache:
            return self.cache[h]
        arg = {"recipe": recipe, "figdir": self.figdir, "warmup": True, "want_text": want_text,
               "want_sites": want_sites, "want_lines": True}
        if self.server is not None:
            ref = self.server.call("sim.recipes:reference_worker", arg)
        else:
            ref = core.run_in_child(R.reference_worker, arg)
        if not want_text and not want_sites:
            self.cache[h] = ref
        return ref

    def for_plan(self, plan):
        return {str(i): self.get(r) for i, r in enumerate(plan["recipes"])}


def run_plan(plan, refs, figdir) -> dict:
    return core.run_in_child(exec_schedule, {"plan": plan, "refs": refs, "figdir": figdir})


def explicit(plan: dict, res: dict) -> dict:
    """The same run as an explicit decision list (replayable without the generator)."""
    p = R_json_copy(plan)
    p["decisions"] = [list(d) for d in res["decisions"]]
    if p.get("abort") and res.get("abort_fired"):
        p["abort"]["k"] = res["abort_fired"]["k"]
    elif p.get("abort"):
        p["abort"] = None
    return p


def R_json_copy(x):
    import json

    return json.loads(json.dumps(x))


def minimise(plan: dict, refs: dict, figdir: str, cls: str, budget_n=120) -> dict:
    """Drop schedule switches (ddmin) while the same violation class persists."""
    budget = [budget_n if not os.environ.get("VERIF_STOP_AFTER_FIRST") else 2]  # regression tooling: no shrinking

    def test(decs):
        cand = dict(plan, decisions=decs)
        try:
            res = run_plan(cand, refs, figdir)
        except HarnessError:
            return False
        return any(v["class"] == cls for v in judge(cand, res, refs))

    decs = list(plan["decisions"])
    if len(decs) > 1:
        decs = core.ddmin(decs, test, budget)
    return dict(plan, decisions=decs)


def sequential_control(arg) -> dict:
    """Diagnosis only: same documents, same order of first entry, one thread."""
    from . import boot

    boot.bootstrap(coop_locks=True)
    R.warmup()
    plan, figdir = arg["plan"], arg["figdir"]
    outs = []
    order = arg["order"]
    docs = dict(enumerate(build_docs(plan, figdir)))
    for i in order:
        if docs[i] is None:
            outs.append({"thread": i, "outcome": {"k": "construct_failed"}})
            continue
        o = R.outcome_of(docs[i].rtf_encode)
        o.pop("_text", None)
        outs.append({"thread": i, "outcome": R.strip(o)})
    return {"threads": outs}


def replay_worker(arg) -> dict:
    from . import boot

    boot.bootstrap(coop_locks=True)
    plan = arg["plan"]
    figdir = tempfile.mkdtemp(prefix="vreplay15")
    try:
        rc = RefCache(figdir)
        refs = rc.for_plan(plan)
        res = run_plan(plan, refs, figdir)
        vs = judge(plan, res, refs)
        for v in vs:
            v.pop("_text", None)
        return {"violations": vs, "signatures": [signature(v) for v in vs], "log_digest": run_digest(res)}
    finally:
        shutil.rmtree(figdir, ignore_errors=True)


def run_digest(res: dict) -> str:
    return digest({"threads": [{k: v for k, v in t.items() if k != "text"} for t in res["threads"]],
                   "decisions": res["decisions"], "steps": res["steps"], "deadlock": res["deadlock"],
                   "switch_log": res["switch_log"]})


# --------------------------------------------------------------------------
# jobs
# --------------------------------------------------------------------------

_worker_state: dict = {}


def _ws():
    if _worker_state.get("pid") != os.getpid():
        figdir = tempfile.mkdtemp(prefix="vc15_")
        _worker_state.clear()
        server = None
        if os.environ.get("VERIF_NO_REFSERVER") != "1":
            server = core.RefServer(core.other_hashseed(core.root_seed()), coop_locks=True)
        _worker_state.update(pid=os.getpid(), figdir=figdir, refcache=RefCache(figdir, server), minimised=0)
    return _worker_state


def _finish_job(plan, refs, res, idx, ws, max_minimise=2) -> dict:
    from .histories import diff_class

    vs = judge(plan, res, refs)
    out = summarise(plan, res, refs, idx)
    out["violations"] = []
    if vs:
        try:
            _report_violation(plan, refs, res, idx, ws, max_minimise, vs, out)
        except Exception:  # noqa: BLE001 - never let classification swallow the violation itself
            v = dict(vs[0])
            v.pop("_text", None)
            out["violations"].append({"v": v, "sig": signature(v), "plan": explicit(plan, res), "seed_idx": idx})
    return out


def _report_violation(plan, refs, res, idx, ws, max_minimise, vs, out):
    from .histories import diff_class

    if True:
        v = vs[0]
        eplan = explicit(plan, res)
        if ws["minimised"] < max_minimise and v["class"] != "deadlock":
            ws["minimised"] += 1
            try:
                eplan = minimise(eplan, refs, ws["figdir"], v["class"])
            except HarnessError:
                pass
        if "_text" in v and v.get("thread") is not None and v["class"] == "output_differs":
            try:
                rt = ws["refcache"].get(plan["recipes"][v["thread"]], want_text=True).get("text")
                if rt is not None:
                    v["class"] = diff_class(v["_text"], rt)
            except HarnessError:
                pass
        v.pop("_text", None)
        # diagnosis: does a purely sequential run already differ? (history effect, not interleaving)
        try:
            order = []
            for _s, _f, t, _site, _c in res["switch_log"]:
                if t not in order:
                    order.append(t)
            first = plan["first"] % nthreads_of(plan)
            order = [first] + [t for t in order if t != first]
            order += [i for i in range(len(plan["recipes"])) if i not in order]
            seq = core.run_in_child(sequential_control, {"plan": plan, "figdir": ws["figdir"], "order": order})
            v["sequential_control_differs"] = any(
                refs[str(e["thread"])]["encode"] is not None
                and not R.same_outcome(e["outcome"], refs[str(e["thread"])]["encode"])
                for e in seq["threads"] if e["outcome"]["k"] in ("ok", "raised"))
        except HarnessError:
            v["sequential_control_differs"] = None
        out["violations"].append({"v": v, "sig": signature(v), "plan": eplan, "seed_idx": idx})
    return out


def job(j: dict) -> dict:
    ws = _ws()
    idx = j["idx"]
    if j.get("sweep"):
        plan = j["plan"]
    else:
        plan = gen_plan(core.rng_for(j["root"], PROP, idx))
        # how the caller starts its threads: bare threading.Thread (empty context) or the way asyncio.to_thread /
        # run_in_executor wrappers do it, inside a copy of the launching context (own stream: older seeds keep their plans)
        plan["launch"] = core.rng_for(j["root"], PROP, "launch", idx).choice(["plain", "ctxcopy"])
        plan["cold"] = core.rng_for(j["root"], PROP, "cold", idx).random() < 0.25
        crng = core.rng_for(j["root"], PROP, "chain", idx)
        if crng.random() < 0.2 and not plan.get("same_doc"):
            # pooled workers: one thread encodes a second document afterwards - an equal-valued copy of ANOTHER
            # thread's document (same palette, same content), or of its own
            n0 = len(plan["recipes"])
            t_ = crng.randrange(n0)
            src = crng.randrange(n0)
            plan["recipes"].append(R_json_copy(plan["recipes"][src]))
            plan["chain"] = {str(t_): [n0]}
            plan["first"] = plan["first"] % n0
        arng = core.rng_for(j["root"], PROP, "ambient", idx)
        if arng.random() < 0.2:
            # the caller's process has non-default settings (display configuration of the data-frame library, decimal
            # context, warning filters, working directory ...); references are computed under the same settings
            amb = arng.choice(R.AMBIENTS)
            for r in plan["recipes"]:
                r["ambient"] = amb
    refs = ws["refcache"].for_plan(plan)
    t0 = time.monotonic()
    res = run_plan(plan, refs, ws["figdir"])
    out = _finish_job(plan, refs, res, idx, ws)
    out["ms"] = int((time.monotonic() - t0) * 1000)
    out["sweep"] = j.get("sweep")
    return out


def summarise(plan, res, refs, idx) -> dict:
    sl = res["switch_log"]
    pairs = set()
    for a, b in zip(sl, sl[1:]):
        pairs.add(digest((a[3], b[3])))
    abstract = digest([(f, t, site) for _s, f, t, site, _c in sl])
    return {
        "idx": idx, "digest": run_digest(res), "steps": res["steps"],
        "nthreads": nthreads_of(plan), "chained": bool(plan.get("chain")), "kind": plan["decider"]["kind"] if plan.get("decisions") is None else "explicit",
        "switches": len(sl), "decision_digest": digest(res["decisions"]), "abstract_digest": abstract,
        "both_inside": res["both_inside_switches"],
        "switch_sites": sorted({s[3] for s in sl}), "site_pairs": sorted(pairs),
        "in_ctx_switches": sum(1 for s in sl if s[4]),
        "lock_yields": res["lock_yields"], "coop_locks_created": res["coop_locks_created"],
        "abort_fired": bool(res["abort_fired"]), "abort_configured": bool(plan.get("abort")),
        "paths": [r["kind"] for r in plan["recipes"]],
        "natural_failures": sum(1 for i in range(len(plan["recipes"]))
                                if refs[str(i)]["encode"] and refs[str(i)]["encode"]["k"] != "ok"),
        "trace_mode": plan.get("trace_mode"), "doc_mode": plan.get("doc_mode"),
        "sample": {"decider": plan["decider"], "first": plan["first"], "decisions": res["decisions"][:12],
                   "switch_log": sl[:6], "docs": [R.recipe_traits(r) for r in plan["recipes"]],
                   "thread_outcomes": [t["outcome"]["k"] for t in res["threads"]]} if (idx < 3 or idx % 1000 == 0) else None,
    }


# --------------------------------------------------------------------------
# one-pre-emption sweep (DESIGN §5): systematic, same simulator
# --------------------------------------------------------------------------


def sweep_groups(root: int, n_groups: int) -> list:
    """Document pairs for the systematic sweep.  Contrasting pairs expose shared
    scratch state (the victim picks up the other document's value); overlapping
    and equal-valued pairs expose content-keyed caches that are briefly
    inconsistent."""
    import json as _json

    rng = core.rng_for(root, PROP, "sweep-groups")
    SA, SB = rich_doc(rng, 0, "single"), rich_doc(rng, 1, "single")
    MA, MB = rich_doc(rng, 0, "multi"), rich_doc(rng, 1, "multi")
    FA = rich_doc(rng, 0, "figure", nfig=2)
    FB = rich_doc(rng, 1, "figure", nfig=1)
    FB["figure"]["files"] = [dict(FA["figure"]["files"][0])]  # same image as FA's first figure
    failing = None
    for _ in range(400):
        r = gen_doc(rng, force_colour=True)
        if r["kind"] == "single" and any(
                f["cols"][0][2][:3] == ["G1", "G2", "G1"] and "group_by" in b for f, b in zip(r["dfs"], r["bodies"])):
            failing = r
            break
    grouped = None
    for _ in range(400):
        r = gen_doc(rng, force_colour=True)
        if r["kind"] == "single" and any(("page_by" in b or "subline_by" in b) for b in r["bodies"]) and \
                sum(len(f["cols"][0][2]) for f in r["dfs"]) <= 13:
            grouped = r
            break
    PA, PB = rich_doc(rng, 0, "pageby"), rich_doc(rng, 1, "pageby")
    # a document whose two-level group_by fails at the FIRST level, next to one whose group_by is fine
    def grouped_doc(keys0, variant):
        n = len(keys0)
        cols = [["c0", "str", keys0], ["c1", "str", [f"S{i // 2}" for i in range(n)]],
                ["c2", "str", [rng.choice(LATEX_TEXTS + ["Drug A"]) for _ in range(n)]]]
        return {"kind": "single", "dfs": [{"cols": cols}],
                "bodies": [{"group_by": ["c0", "c1"], "text_color": ("red", "navy")[variant % 2]}],
                "page": {"nrow": 10}, "title": {"text": "Grouped " + str(variant)}, "subline": None,
                "page_header": None, "page_footer": None, "footnote": None, "source": None, "headers": "default"}
    GF = grouped_doc(["G1", "G2", "G1", "G2", "G3", "G3"], 0)      # fails: G1 is not contiguous
    GG = grouped_doc(["G1", "G1", "G2", "G2", "G3", "G3", "G3", "G4"], 1)
    # list-valued columns on both threads, in a process whose display configuration the caller has changed
    LA, LB = rich_doc(rng, 0, "listcols"), rich_doc(rng, 1, "listcols")
    LA["ambient"] = LB["ambient"] = R.AMBIENTS[0]
    # two documents built on the SAME DataFrame object (a caller making two tables from one frame): one hides its
    # page_by columns, the other its subline_by column; shorter than the pageby pair to keep the profile cheap
    FA2 = rich_doc(rng, 0, "pageby")
    FB2 = rich_doc(rng, 1, "subline")
    for f in FA2["dfs"]:
        f["cols"] = [[n_, t_, v_[14:36]] for n_, t_, v_ in f["cols"]]
    FB2["dfs"] = _json.loads(_json.dumps(FA2["dfs"]))
    FA2["page"]["nrow"], FB2["page"]["nrow"] = 9, 11
    SBs = _json.loads(_json.dumps(SB))
    for c in ("footnote", "source", "title", "page_header", "page_footer"):
        SBs[c] = _json.loads(_json.dumps(SA[c]))  # equal specs: the two documents hold the SAME component objects
    groups = [("single-vs-single", SA, SB), ("multi-vs-figure", MA, FB), ("figure-overlap", FA, FB),
              ("equal-valued", SB, _json.loads(_json.dumps(SB))), ("single-vs-failing", SA, failing or SB),
              ("pageby-vs-pageby", PA, PB), ("shared-components", SA, SBs), ("failing-vs-grouped", GF, GG),
              ("same-document", GG, _json.loads(_json.dumps(GG))),
              ("list-columns", LA, LB),
              ("thread-reuse", SA, SB),
              ("shared-frame", FA2, FB2),
              ("multi-vs-multi", MA, MB), ("grouped-vs-single", grouped or MB, SA),
              ("figure-vs-single", FA, SB)]
    return groups[:n_groups]


GROUP_NO_HOT = {"thread-reuse"}  # same documents as group 0: no second profile; swept by the "chain" mode only
GROUP_SAME_DOC = {"same-document": {"1": 0}}  # thread 1 encodes the very document object of thread 0
GROUP_SHARE = {"shared-components": [{c: c in ("footnote", "source", "title", "page_header", "page_footer")
                                       for c in SHARED_COMPONENTS}] * 2,
               "shared-frame": [dict({c: False for c in SHARED_COMPONENTS}, df=True)] * 2}


def hot_job(j: dict) -> dict:
    if j.get("name") in GROUP_NO_HOT:
        return {"hot": {}, "hot_steps": {}, "priority_steps": {}, "component_dirty": False}
    ws = _ws()
    share = GROUP_SHARE.get(j.get("name"))
    hot = find_hot_sites(j["recipes"], ws["figdir"], share)
    dirty = bool(hot.pop("<component-dirty>", 0))
    out = {"hot": hot, "hot_steps": {}, "priority_steps": {}, "component_dirty": dirty}
    if hot:
        refs = {str(i): ws["refcache"].get(r) for i, r in enumerate(j["recipes"])}
        for order in (0, 1):
            plan = {"recipes": j["recipes"], "decider": {"kind": "sweep"}, "first": order, "trace_mode": "hot",
                    "hot_sites": sorted(hot), "decisions": [], "abort": None, "list_hot_steps": True,
                    "check_dirty": dirty, "share": share,
                    "writer_sites": sorted(k for k, v in hot.items() if v > 0)}
            res = run_plan(plan, refs, ws["figdir"])
            out["hot_steps"][str(order)] = res["hot_steps"] or []
            out["priority_steps"][str(order)] = res.get("priority_steps") or []
            out.setdefault("after_hot_steps", {})[str(order)] = res.get("after_hot_steps") or []
    if j.get("cold_probe"):
        # the same profile in a COLD process: functions that write shared state only the first time they run
        # (lazily loaded resources, one-time registrations) - invisible above, where one encode precedes the profile
        chot = find_hot_sites(j["recipes"], ws["figdir"], share, cold=True)
        chot.pop("<component-dirty>", None)
        cold_only = sorted(k for k in chot if k not in hot)
        out["cold_hot"] = cold_only
        out["cold_steps"] = {}
        if cold_only:
            refs = {str(i): ws["refcache"].get(r) for i, r in enumerate(j["recipes"])}
            for order in (0, 1):
                plan = {"recipes": j["recipes"], "decider": {"kind": "sweep"}, "first": order, "trace_mode": "hot",
                        "hot_sites": cold_only, "decisions": [], "abort": None, "list_hot_steps": True,
                        "share": share, "cold": True}
                res = run_plan(plan, refs, ws["figdir"])
                out["cold_steps"][str(order)] = res["hot_steps"] or []
    return out


def _pick(steps: list, priority: list, m: int) -> list:
    """Up to m pre-emption points: the priority ones (inside a window in which a component object differs
    from its baseline) first, spread evenly, then evenly strided others."""
    pri = priority[:: max(1, -(-len(priority) // m))] if priority else []
    rest_n = max(0, m - len(pri))
    rest = steps[:: max(1, -(-len(steps) // rest_n))] if rest_n and steps else []
    return sorted(set(pri) | set(rest))


def sweep_jobs(root: int, groups: list, refcache: RefCache, specs: list, hot_info: dict, hot_cap: int,
               hot3_cap: int = 400, cold_cap: int = 200) -> list:
    """specs: [(group index, trace mode, stride)]; hot_info: group index -> hot_job result."""
    jobs = []
    idx = 10_000_000
    for gi, trace_mode, stride in specs:
        if gi >= len(groups):
            continue
        name, a, b = groups[gi]
        recs = [a, b]
        if trace_mode == "chain":
            # pooled workers: thread 0 encodes x and then an equal-valued copy of y, thread 1 encodes y.  The switch
            # happens when thread 0 picks up its second document; thread 1 then runs j2 boundaries (or to the end)
            for (x, y, tag) in ((a, b, 0), (b, a, 1)):
                ky = refcache.get(y).get("ncalls") or 0
                for j2 in [None] + list(range(1 + stride // 2, ky + 1, stride)):
                    plan = {"recipes": [x, y, R_json_copy(y)], "chain": {"0": [2]}, "decider": {"kind": "sweep"},
                            "first": 0, "trace_mode": "call", "decisions": [],
                            "chain_switch": {"to": 1, "then": [[j2, 0]] if j2 else []}, "finish_pref": [0, 1],
                            "abort": None}
                    jobs.append({"idx": idx, "sweep": {"group": name, "order": tag, "k": j2 or 0, "K": ky,
                                                       "mode": "chain", "stride": stride}, "plan": plan})
                    idx += 1
            continue
        if trace_mode == "grid2":
            # two pre-emptions without any targeting signal: A paused at one of n1 evenly spread boundaries, B paused
            # at every stride-th boundary of its own encode, A resumes to completion, then B
            n1 = 6 if stride >= 16 else 16
            ra, rb = refcache.get(a), refcache.get(b)
            ka, kb = ra.get("ncalls") or 0, rb.get("ncalls") or 0
            for k1 in [max(1, (ka * (i + 1)) // (n1 + 1)) for i in range(n1)]:
                for j2 in range(1 + stride // 2, kb + 1, stride):
                    plan = {"recipes": recs, "decider": {"kind": "sweep"}, "first": 0, "trace_mode": "call",
                            "decisions": [[k1, 1], [k1 + j2, 0]], "finish_pref": [0, 1], "abort": None,
                            "share": GROUP_SHARE.get(name), "same_doc": GROUP_SAME_DOC.get(name)}
                    jobs.append({"idx": idx, "sweep": {"group": name, "order": 0, "k": k1, "K": ka, "mode": "grid2",
                                                       "stride": stride}, "plan": plan})
                    idx += 1
            continue
        for order in (0, 1):
            first = order
            ref_first = refcache.get(recs[first])
            K = ((ref_first.get("ncalls") or 0) + (ref_first.get("nlines") or 0) if trace_mode == "line"
                 else (ref_first.get("ncalls") or 0) * (2 if trace_mode == "callret" else 1))
            if K > stride * PER_SPEC_CAP:
                # a very long encode: bound the number of schedules of this (group, mode, order); the wall cap
                # would cut the batch anyway, and the job list has to fit in memory
                stride = -(-K // PER_SPEC_CAP)
            off = core.rng_for(root, PROP, "sweep-offset", gi, order, trace_mode).randrange(stride) if stride > 1 else 0
            for k in range(1 + off, K + 1, stride):
                plan = {"recipes": recs, "decider": {"kind": "sweep"}, "first": first, "trace_mode": trace_mode,
                        "decisions": [[k, 1 - first]], "abort": None, "share": GROUP_SHARE.get(name),
                        "same_doc": GROUP_SAME_DOC.get(name)}
                jobs.append({"idx": idx, "sweep": {"group": name, "order": order, "k": k, "K": K, "mode": trace_mode,
                                                   "stride": stride}, "plan": plan})
                idx += 1
    # targeted, three threads: A paused inside a hot function, B paused inside a hot function, C runs to
    # completion, then both resumption orders (races that need a third party between two others)
    third = core.rng_for(root, PROP, "sweep-third")
    for gi, info in sorted(hot_info.items()):
        name, a, b = groups[gi]
        if not info.get("hot"):
            continue
        c = rich_doc(third, 2, "single")
        sa = info["hot_steps"].get("0", [])
        sb = info["hot_steps"].get("1", [])
        m = max(1, int(hot3_cap ** 0.5))
        # a short list of hot statements (a couple of small functions) is taken whole for the first group: every
        # pair of pre-emption points, to completion, with and without a chained third encode
        whole = gi == 0 and len(sa) <= 48 and len(sb) <= 48
        if whole:
            # ... including the first call boundaries after each visit to the hot statements
            sa = sorted(set(sa) | set(info.get("after_hot_steps", {}).get("0", [])))
            sb = sorted(set(sb) | set(info.get("after_hot_steps", {}).get("1", [])))
        pick_a = _pick(sa, info.get("priority_steps", {}).get("0", []), len(sa) if whole else m)
        pick_b = _pick(sb, info.get("priority_steps", {}).get("1", []), len(sb) if whole else m)
        # two threads, two or three switches: X paused inside a hot function, Y paused inside a hot
        # function, X resumes (to completion, or just for d more boundaries), then Y - both role assignments
        for (x, y, px, py, tag) in ((a, b, pick_a, pick_b, 0), (b, a, pick_b, pick_a, 1)):
            shx = GROUP_SHARE.get(name)
            for k1 in px:
                for j2 in py:
                    for d in ((None,) if whole else (None, 1, 2, 4, 8)):
                        decs = [[k1, 1], [k1 + j2, 0]] + ([[k1 + j2 + d, 1]] if d else [])
                        plan = {"recipes": [x, y], "decider": {"kind": "sweep"}, "first": 0, "trace_mode": "hot",
                                "hot_sites": sorted(info["hot"]), "decisions": decs, "finish_pref": [0, 1],
                                "abort": None, "share": shx}
                        jobs.append({"idx": idx, "sweep": {"group": name, "order": tag, "k": k1, "K": len(px),
                                                           "mode": "hot2x", "stride": 0}, "plan": plan})
                        idx += 1
                        if d is None and gi == 0:
                            # ... and X is a pooled worker: after finishing it picks up another document (an
                            # equal-valued copy of its own) while Y is still in flight - a later starter that finds
                            # whatever bookkeeping the two overlapping encodes left behind
                            cplan = dict(plan, recipes=[x, y, R_json_copy(x)], chain={"0": [2]})
                            jobs.append({"idx": idx, "sweep": {"group": name, "order": tag, "k": k1, "K": len(px),
                                                               "mode": "hot2x+chain", "stride": 0}, "plan": cplan})
                            idx += 1
        for k1 in pick_a:
            for j2 in pick_b:
                for pref in ([0, 1], [1, 0]):
                    sh = GROUP_SHARE.get(name)
                    plan = {"recipes": [a, b, c], "decider": {"kind": "sweep"}, "first": 0, "trace_mode": "hot",
                            "hot_sites": sorted(info["hot"]), "decisions": [[k1, 1], [k1 + j2, 2]],
                            "finish_pref": pref, "abort": None, "share": (sh + [None]) if sh else None}
                    jobs.append({"idx": idx, "sweep": {"group": name + "+third", "order": pref[0], "k": k1, "K": len(sa),
                                                       "mode": "hot3", "stride": 0}, "plan": plan})
                    idx += 1
    # targeted: every statement boundary inside functions seen writing shared state
    for gi, info in sorted(hot_info.items()):
        name, a, b = groups[gi]
        if not info.get("hot"):
            continue
        for order in (0, 1):
            steps = info["hot_steps"].get(str(order), [])
            stride = max(1, -(-len(steps) // hot_cap))
            prio = info.get("priority_steps", {}).get(str(order), [])
            prio = prio[:: max(1, -(-len(prio) // max(1, hot_cap // 4)))]  # writer entries / dirty windows: always
            for k in sorted(set(steps[::stride]) | set(prio)):
                plan = {"recipes": [a, b], "decider": {"kind": "sweep"}, "first": order, "trace_mode": "hot",
                        "hot_sites": sorted(info["hot"]), "decisions": [[k, 1 - order]], "abort": None,
                        "share": GROUP_SHARE.get(name)}
                jobs.append({"idx": idx, "sweep": {"group": name, "order": order, "k": k, "K": len(steps),
                                                   "mode": "hot", "stride": stride}, "plan": plan})
                idx += 1
    # cold process: every statement of the functions that write shared state only on first use, one pre-emption,
    # both orders (the other thread then runs its whole encode while the first sits inside the initialisation)
    for gi, info in sorted(hot_info.items()):
        name, a, b = groups[gi]
        if not info.get("cold_hot"):
            continue
        for order in (0, 1):
            steps = info.get("cold_steps", {}).get(str(order), [])
            stride = max(1, -(-len(steps) // cold_cap))
            for k in steps[::stride]:
                plan = {"recipes": [a, b], "decider": {"kind": "sweep"}, "first": order, "trace_mode": "hot",
                        "hot_sites": list(info["cold_hot"]), "decisions": [[k, 1 - order]], "abort": None,
                        "share": GROUP_SHARE.get(name), "cold": True}
                jobs.append({"idx": idx, "sweep": {"group": name, "order": order, "k": k, "K": len(steps),
                                                   "mode": "coldhot", "stride": stride}, "plan": plan})
                idx += 1
    for n_, j in enumerate(jobs):
        # alternate the thread-launch style over every sweep (identical behaviour unless the library keeps
        # state in context variables)
        j["plan"]["launch"] = "ctxcopy" if n_ % 2 else "plain"
        j["sweep"]["launch"] = j["plan"]["launch"]
        if (n_ // 2) % 2 and not R.plan_ambient(j["plan"]["recipes"]):
            # every other pair: tiny capacities for whatever caches / pools the package has (none on the pinned tree)
            j["plan"]["recipes"] = [dict(r, ambient={"knobs": "small"}) for r in j["plan"]["recipes"]]
            j["sweep"]["knobs"] = "small"
    return jobs


# --------------------------------------------------------------------------
# batch
# --------------------------------------------------------------------------

TIERS = {"quick": {"runs": 320, "wall": 420.0, "groups": 12, "hot_cap": 600, "hot3_cap": 100,
                   "cold_groups": (0, 1, 2, 4, 7, 8), "cold_cap": 150,
                   "sweeps": [(0, "call", 96), (1, "call", 96), (2, "call", 12), (3, "call", 128), (4, "call", 96),
                              (5, "call", 4096), (6, "call", 96), (7, "call", 24), (8, "call", 32), (8, "grid2", 16),
                              (9, "call", 64), (10, "chain", 512), (11, "call", 512), (0, "line", 768)]},
         "thorough": {"runs": 60000, "wall": 3000.0, "groups": 15, "hot_cap": 4000, "hot3_cap": 2500,
                      "cold_groups": tuple(range(15)), "cold_cap": 4000,
                      "sweeps": [(i, "callret", 1) for i in range(15) if i != 10] + [(i, "line", 4) for i in range(15) if i != 10]
                      + [(10, "chain", 2)]
                      + [(8, "grid2", 2), (7, "grid2", 4), (3, "grid2", 64)]}}


def main(opts) -> int:
    from . import boot, cli

    t0 = time.monotonic()
    boot.bootstrap(coop_locks=True)
    tier = TIERS[opts.tier]
    runs = opts.runs if opts.runs is not None else tier["runs"]
    wall = opts.wall or tier["wall"]
    root = opts.seed

    from . import corpus

    ncorpus = corpus.harvest(os.path.join(opts.root_dir, "corpus"))
    # systematic one-pre-emption sweep
    figdir = tempfile.mkdtemp(prefix="vc15main_")
    rc = RefCache(figdir)
    groups = sweep_groups(root, tier["groups"])
    hres, _ = core.pool_map(hot_job, [{"recipes": [a, b], "name": _n, "cold_probe": gi in tier["cold_groups"]}
                                      for gi, (_n, a, b) in enumerate(groups)])
    hot_info = {}
    herrs = []
    for gi, r in sorted(hres.items()):
        if "harness_error" in r:
            herrs.append(f"hot profile of group {gi}: {r['harness_error'][:500]}")
        else:
            hot_info[gi] = r
    sjobs = sweep_jobs(root, groups, rc, tier["sweeps"], hot_info, tier["hot_cap"], tier.get("hot3_cap", 400),
                       tier.get("cold_cap", 200))
    seeded = [{"root": root, "idx": i} for i in range(runs)]
    # a wall-cap truncation must not starve either kind: the remaining seeded schedules are spread evenly over the
    # sweep schedules (a changed tree can multiply the number of targeted sweeps)
    # ... and the sweep strata are mixed (seeded order), so that a truncated batch has sampled every stratum
    mixed = sorted(sjobs, key=lambda j_: core.derive(root, "sweep-order", j_["idx"]))
    jobs = seeded[:16] + core.interleave(mixed, seeded[16:])
    results, truncated = core.pool_map(job, jobs, wall_cap=wall)
    herrs += [f"run {jobs[i].get('idx')}: {r['harness_error'][:600]}" for i, r in sorted(results.items())
              if "harness_error" in r]
    good = [r for _, r in sorted(results.items()) if "harness_error" not in r]
    violations = [v for r in good for v in r["violations"]]

    def confirm(v):
        got = core.run_fresh("sim.schedules:replay_worker", {"plan": v["plan"]}, hashseed=0, coop_locks=True,
                             timeout=300)
        return bool(got["signatures"])

    def body(v):
        return {"property": PROP, "engine": "schedules", "signature": v["sig"], "violation": v["v"],
                "plan": v["plan"], "root_seed": root, "seed_idx": v["seed_idx"], "how": "./check replay <this file>"}

    n_new, n_known, rcode = cli.report(PROP, violations, herrs, confirm, body)
    wall_s = time.monotonic() - t0
    if not opts.no_evidence:
        write_evidence(opts, good, len(jobs), len(results), truncated, sjobs, groups, hot_info, tier, n_new, n_known,
                       wall_s, herrs, ncorpus)
    sw = [r for r in good if r.get("sweep")]
    print(f"C15 {opts.tier}: {len(good) - len(sw)} seeded schedules + {len(sw)}/{len(sjobs)} sweep schedules, "
          f"{sum(r['steps'] for r in good)} steps, {n_new} new violation(s), {n_known} known, "
          f"{len(herrs)} harness error(s), {wall_s:.1f}s" + (" [truncated by wall cap]" if truncated else ""))
    return rcode


def write_evidence(opts, good, njobs, nres, truncated, sjobs, groups, hot_info, tier, n_new, n_known, wall_s, herrs,
                   ncorpus=0):
    from . import boot

    sw = [r for r in good if r.get("sweep")]
    seeded = [r for r in good if not r.get("sweep")]
    dec = {r["decision_digest"] for r in good}
    nontriv = {r["abstract_digest"] for r in good if r["both_inside"] > 0}
    sites = set()
    pairs_seen = set()
    kinds: dict = {}
    for r in good:
        sites.update(r["switch_sites"])
        pairs_seen.update(r["site_pairs"])
        kinds[r["kind"]] = kinds.get(r["kind"], 0) + 1
    doc_modes: dict = {}
    for r in seeded:
        doc_modes[r.get("doc_mode")] = doc_modes.get(r.get("doc_mode"), 0) + 1
    sweep_prog: dict = {}
    for r in sw:
        s = r["sweep"]
        key = f"{s['group']}-order{s['order']}-{s['mode']}-stride{s['stride']}"
        d = sweep_prog.setdefault(key, {"K": s["K"], "done": 0})
        d["done"] += 1
    sweep_complete = bool(sjobs) and len(sw) == len(sjobs) and any(st == 1 for _p, _m, st in tier["sweeps"])
    cov = {
        "evaluations": len(good),
        "distinct_nontrivial": len(nontriv),
        "rule": ("one evaluation = one schedule of 2-3 real caller threads, each encoding its own document, under the "
                 "baton scheduler in a pristine forked process; pre-emption points are library call (and, in callret "
                 "mode, return) boundaries. Decision sources: bounded pre-emption strata (1-3 switches at seeded "
                 "steps), random (p in 1e-3..1e-1), PCT-style priorities, and the systematic one-pre-emption sweep "
                 "(A runs to its k-th boundary, B runs to completion, A finishes; every k-th k with seeded offset in "
                 "quick, every k in thorough; both orders; document pairs are contrasting, overlapping and "
                 "equal-valued), plus a targeted statement-level sweep inside every function that a profiling run "
                 "saw writing process-shared state. A schedule is non-trivial when at least one switch "
                 "happened while both threads were inside rtf_encode; distinct by the digest of its abstracted "
                 "switch list (from-thread, to-thread, pre-empted call site)."),
        "samples": [r["sample"] for r in good if r.get("sample")][:3],
        "schedules_seeded": len(seeded), "schedules_sweep": len(sw), "sweep_jobs_planned": len(sjobs),
        "sweep_specs_group_mode_stride": [list(x) for x in tier["sweeps"]],
        "sweep_progress": sweep_prog,
        "sweep_groups": [[n, R.recipe_traits(a), R.recipe_traits(b)] for n, a, b in groups],
        "shared_state_writers_found_by_profiling": {groups[gi][0]: sorted(info.get("hot", {}))
                                                    for gi, info in sorted(hot_info.items())},
        "doc_modes_seeded": doc_modes,
        "corpus_documents_harvested_from_repository_tests": ncorpus,
        "exhaustive": False,
        "one_preemption_sweep_complete_for_listed_pairs_at_stride_1_specs": sweep_complete,
        "schedules_per_hour": int(len(good) / wall_s * 3600) if wall_s > 0 else 0,
        "simulated_time": "none (library has no clock); logical steps = library call/return boundaries executed",
        "steps": sum(r["steps"] for r in good),
        "switches": sum(r["switches"] for r in good),
        "distinct_decision_lists": len(dec),
        "distinct_preempted_sites": len(sites),
        "distinct_site_pairs_preempted_then_resumed": len(pairs_seen),
        "switches_inside_colour_context_window": sum(r["in_ctx_switches"] for r in good),
        "schedules_with_both_threads_inside_encode_at_a_switch": sum(1 for r in good if r["both_inside"] > 0),
        "by_decision_source": kinds,
        "three_thread_schedules": sum(1 for r in good if r["nthreads"] == 3),
        "fault_kinds": {
            "natural_encode_failure_in_a_thread": {"fired": sum(r["natural_failures"] for r in good)},
            "injected_abort_of_one_thread": {"configured": sum(1 for r in good if r["abort_configured"]),
                                             "fired": sum(1 for r in good if r["abort_fired"])},
            "lock_contention_yields": {"fired": sum(r["lock_yields"] for r in good)},
        },
        "cooperative_locks_created_by_library": max([sum(r["coop_locks_created"].values()) for r in good] or [0]),
        "runs_dispatched": nres, "jobs_planned": njobs, "truncated_by_wall_cap": truncated,
        "known_findings_matched": n_known, "harness_errors": len(herrs),
        "real_components": ["rtflite (all of it, from /repo/src)", "pydantic", "polars", "Pillow", "CPython threads"],
        "stubbed_components": ["thread scheduling decisions (baton scheduler)",
                               "threading.Lock/RLock created by library code (cooperative versions)"],
        "source_tree_sha256": boot.source_tree_hash(),
        "workers": core.n_workers(),
    }
    core.write_evidence(PROP, opts.tier, opts.seed, "exploration", cov, [
        "pre-emption happens only at library call/return boundaries, not between bytecodes of one function",
        "a forked child of an import-only zygote (plus one colourless warm-up encode) equals the run-alone reference "
        "environment",
        "blocking on primitives other than threading.Lock/RLock created by library code is not scheduled; a hang is "
        "a HARNESS-ERROR, never a verdict",
        "seeded search samples the schedule space; the sweep is complete only for the listed pairs when "
        "one_preemption_sweep_complete_for_listed_pairs is true",
    ], wall_s, n_new)

"""Simulator core: seeds, executors, worker pool, digests, ddmin, evidence I/O.

See DESIGN.md §3.  Nothing here knows about a particular property.
"""

from __future__ import annotations

import faulthandler
import hashlib
import json
import os
import pickle
import random
import select
import signal
import subprocess
import sys
import tempfile
import time
import traceback

VERIF_DIR = os.path.dirname(os.path.dirname(os.path.abspath(__file__)))
EVIDENCE_DIR = os.path.join(VERIF_DIR, "evidence")
REPLAY_DIR = os.environ.get("VERIF_REPLAY_DIR") or os.path.join(VERIF_DIR, "replays")
KNOWN_FINDINGS = os.path.join(VERIF_DIR, "known_findings.txt")


class HarnessError(Exception):
    """Anything the harness itself got wrong (timeout, dead child, ...)."""


# --------------------------------------------------------------------------
# seeds
# --------------------------------------------------------------------------


def root_seed() -> int:
    try:
        return int(os.environ.get("VERIF_SEED", "0"))
    except ValueError:
        return 0


def derive(root: int, *parts) -> int:
    s = ":".join(str(p) for p in (root,) + parts)
    return int.from_bytes(hashlib.sha256(s.encode()).digest()[:8], "big")


def rng_for(root: int, *parts) -> random.Random:
    return random.Random(derive(root, *parts))


# --------------------------------------------------------------------------
# canonical JSON / digests
# --------------------------------------------------------------------------


def cjson(obj) -> str:
    return json.dumps(obj, sort_keys=True, separators=(",", ":"), default=_jd)


def _jd(o):
    if isinstance(o, (set, frozenset)):
        return sorted(o)
    if isinstance(o, bytes):
        return o.hex()
    if isinstance(o, tuple):
        return list(o)
    return repr(o)


def digest(obj) -> str:
    return hashlib.sha256(cjson(obj).encode()).hexdigest()[:16]


def sha_text(s: str) -> str:
    return hashlib.sha256(s.encode("utf-8", "surrogatepass")).hexdigest()[:24]


def sha_bytes(b: bytes) -> str:
    return hashlib.sha256(b).hexdigest()[:24]


# --------------------------------------------------------------------------
# executors
# --------------------------------------------------------------------------

CHILD_TIMEOUT = float(os.environ.get("VERIF_CHILD_TIMEOUT", "60"))


def _write_all(fd, data: bytes):
    view = memoryview(data)
    while view:
        n = os.write(fd, view)
        view = view[n:]


def run_in_child(fn, arg, timeout: float = CHILD_TIMEOUT):
    """fork(); child runs fn(arg) and pickles the result to a pipe; _exit.

    The caller is a zygote that has imported rtflite and done nothing with it,
    so the child is indistinguishable from a freshly imported interpreter.
    Raises HarnessError on timeout / dead child / exception inside the harness
    code of the child.
    """
    r, w = os.pipe()
    sys.stdout.flush()
    sys.stderr.flush()
    pid = os.fork()
    if pid == 0:
        code = 0
        try:
            os.close(r)
            try:
                faulthandler.dump_traceback_later(max(1.0, timeout - 1.0), exit=True)
            except Exception:
                pass
            # the library prints target paths; keep the batch's stdout clean
            dn = os.open(os.devnull, os.O_WRONLY)
            os.dup2(dn, 1)
            try:
                res = ("ok", fn(arg))
            except BaseException:
                res = ("err", traceback.format_exc())
            _write_all(w, pickle.dumps(res, protocol=pickle.HIGHEST_PROTOCOL))
        except BaseException:
            code = 3
        finally:
            os._exit(code)
    os.close(w)
    chunks = []
    deadline = time.monotonic() + timeout
    timed_out = False
    while True:
        left = deadline - time.monotonic()
        if left <= 0:
            timed_out = True
            break
        rl, _, _ = select.select([r], [], [], left)
        if not rl:
            timed_out = True
            break
        b = os.read(r, 1 << 20)
        if not b:
            break
        chunks.append(b)
    os.close(r)
    if timed_out:
        try:
            os.kill(pid, signal.SIGKILL)
        except ProcessLookupError:
            pass
    _, status = os.waitpid(pid, 0)
    if timed_out:
        raise HarnessError(f"child timed out after {timeout}s in {fn.__name__}")
    data = b"".join(chunks)
    if not data:
        raise HarnessError(f"child died without result (status {status}) in {fn.__name__}")
    tag, val = pickle.loads(data)
    if tag == "err":
        raise HarnessError(f"harness exception in child {fn.__name__}:\n{val}")
    return val


def run_fresh(fn_qualname: str, arg, hashseed: int = 0, coop_locks: bool = False,
              timeout: float = 120.0, extra_env: dict | None = None, bootstrap: bool = True):
    """Run ``module:function(arg)`` in a brand-new interpreter (spawn executor)."""
    env = dict(os.environ)
    env["PYTHONHASHSEED"] = str(hashseed)
    env["POLARS_MAX_THREADS"] = "1"
    env["VERIF_BOOTED"] = "1"
    env.pop("PYTHONPATH", None)
    if extra_env:
        env.update(extra_env)
    prog = (
        "import sys, pickle; sys.path.insert(0, %r); "
        "from sim import core; core._fresh_main()" % VERIF_DIR
    )
    payload = pickle.dumps((fn_qualname, arg, coop_locks if bootstrap else None))
    try:
        cp = subprocess.run(
            [sys.executable, "-s", "-c", prog],
            input=payload, capture_output=True, env=env, timeout=timeout,
            cwd=env.get("VERIF_SANDBOX_CWD") or None,
        )
    except subprocess.TimeoutExpired as e:
        raise HarnessError(f"fresh interpreter timed out in {fn_qualname}") from e
    marker = b"\n@@RESULT@@\n"
    idx = cp.stdout.rfind(marker)
    if cp.returncode != 0 or idx < 0:
        raise HarnessError(
            f"fresh interpreter failed in {fn_qualname} (rc={cp.returncode}):\n"
            + cp.stderr.decode(errors="replace")[-4000:]
        )
    tag, val = pickle.loads(cp.stdout[idx + len(marker):])
    if tag == "err":
        raise HarnessError(f"harness exception in fresh {fn_qualname}:\n{val}")
    return val


def _fresh_main():
    import importlib

    fn_qualname, arg, coop = pickle.loads(sys.stdin.buffer.read())
    from . import boot

    if coop is not None:  # None: the function bootstraps itself (e.g. after starting a coverage tracer)
        boot.bootstrap(coop_locks=coop)
    modname, fname = fn_qualname.split(":")
    fn = getattr(importlib.import_module(modname), fname)
    out = os.dup(1)
    dn = os.open(os.devnull, os.O_WRONLY)
    os.dup2(dn, 1)
    try:
        res = ("ok", fn(arg))
    except BaseException:
        res = ("err", traceback.format_exc())
    _write_all(out, b"\n@@RESULT@@\n" + pickle.dumps(res))
    os._exit(0)


# --------------------------------------------------------------------------
# worker pool: W forked workers, each forks one pristine child per run
# --------------------------------------------------------------------------


def n_workers() -> int:
    try:
        w = int(os.environ.get("VERIF_WORKERS", "0"))
    except ValueError:
        w = 0
    if w <= 0:
        w = min(16, os.cpu_count() or 1)
    return w


def pool_map(job_fn, jobs: list, workers: int | None = None, wall_cap: float | None = None,
             progress=None):
    """Run job_fn(job) for every job on W forked workers (static assignment
    job i -> worker i mod W, so results do not depend on W or on timing).

    job_fn runs *in the worker* (a zygote): it must itself use run_in_child for
    anything that touches rtflite.  Returns (results_by_index, truncated).
    Results are whatever job_fn returns (must be picklable); an exception in
    job_fn is returned as {"harness_error": text}.
    """
    W = max(1, min(workers or n_workers(), len(jobs) or 1))
    t0 = time.monotonic()
    deadline = t0 + wall_cap if wall_cap else None
    pipes = {}
    pids = {}
    sys.stdout.flush()
    sys.stderr.flush()
    # regression tooling only (tools/try_all_seeded.sh): stop the batch once some run has reported a violation
    stop_flag = None
    if os.environ.get("VERIF_STOP_AFTER_FIRST"):
        fd, stop_flag = tempfile.mkstemp(prefix="vstop_")
        os.close(fd)
        os.unlink(stop_flag)
    for wi in range(W):
        r, w = os.pipe()
        pid = os.fork()
        if pid == 0:
            try:
                os.close(r)
                for rr in pipes:
                    os.close(rr)
                for ji in range(wi, len(jobs), W):
                    if deadline is not None and time.monotonic() > deadline:
                        break
                    if stop_flag and os.path.exists(stop_flag):
                        break
                    try:
                        res = job_fn(jobs[ji])
                    except HarnessError as e:
                        res = {"harness_error": str(e)}
                    except BaseException:
                        res = {"harness_error": traceback.format_exc()}
                    data = pickle.dumps((ji, res), protocol=pickle.HIGHEST_PROTOCOL)
                    _write_all(w, len(data).to_bytes(8, "big") + data)
                    if stop_flag and isinstance(res, dict) and res.get("violations"):
                        open(stop_flag, "w").close()
            finally:
                os._exit(0)
        os.close(w)
        pipes[r] = bytearray()
        pids[r] = pid
    results = {}
    open_fds = set(pipes)
    while open_fds:
        rl, _, _ = select.select(list(open_fds), [], [], 5.0)
        for r in rl:
            b = os.read(r, 1 << 20)
            if not b:
                open_fds.discard(r)
                os.close(r)
                os.waitpid(pids[r], 0)
                continue
            buf = pipes[r]
            buf += b
            while len(buf) >= 8:
                n = int.from_bytes(buf[:8], "big")
                if len(buf) < 8 + n:
                    break
                ji, res = pickle.loads(bytes(buf[8:8 + n]))
                del buf[:8 + n]
                results[ji] = res
                if progress:
                    progress(ji, res)
    truncated = len(results) < len(jobs)
    if stop_flag and os.path.exists(stop_flag):
        os.unlink(stop_flag)
    return results, truncated


def interleave(primary: list, secondary: list) -> list:
    """primary with the items of secondary spread evenly through it (order within each kept): when a wall cap
    truncates a batch, both kinds have progressed proportionally.  Positions are jittered by a hash, not strictly
    periodic: with the static job -> worker assignment (index mod W) a fixed period would put every secondary
    item on the same few workers."""
    if not primary or not secondary:
        return list(primary) + list(secondary)
    P, S = len(primary), len(secondary)
    keyed = [((n_ + 0.5) / P, 0, n_, x) for n_, x in enumerate(primary)]
    keyed += [((k + (derive(0, "interleave", k) % 1000) / 1000.0) / S, 1, k, y) for k, y in enumerate(secondary)]
    keyed.sort(key=lambda t: (t[0], t[1], t[2]))
    return [t[3] for t in keyed]


# --------------------------------------------------------------------------
# ddmin (list minimisation)
# --------------------------------------------------------------------------


def ddmin(items: list, test, budget: list) -> list:
    """Classic ddmin: smallest sublist (by removal of chunks) for which
    test(sublist) is True.  budget is a one-element list [remaining_tests]."""
    n = 2
    cur = list(items)
    while len(cur) >= 2 and budget[0] > 0:
        chunk = max(1, len(cur) // n)
        subsets = [cur[i:i + chunk] for i in range(0, len(cur), chunk)]
        reduced = False
        for i in range(len(subsets)):
            if budget[0] <= 0:
                break
            comp = [x for j, s in enumerate(subsets) if j != i for x in s]
            budget[0] -= 1
            if comp and test(comp):
                cur = comp
                n = max(n - 1, 2)
                reduced = True
                break
        if not reduced:
            if n >= len(cur):
                break
            n = min(len(cur), n * 2)
    if len(cur) == 1 and budget[0] > 0:
        pass
    return cur


# --------------------------------------------------------------------------
# known findings
# --------------------------------------------------------------------------


def load_known_findings():
    """known: property=<id> pattern=<json> :: <what>   |   fixed: property=<id> <commit> <what>"""
    import re

    known, fixed = [], []
    if os.path.exists(KNOWN_FINDINGS):
        with open(KNOWN_FINDINGS) as fh:
            for line in fh:
                line = line.strip()
                if not line or line.startswith("#"):
                    continue
                m = re.match(r"known:\s+property=(\S+)\s+pattern=(\{.*?\})\s+::\s+(.*)$", line)
                if m:
                    known.append({"status": "known", "property": m.group(1), "pattern": json.loads(m.group(2)),
                                  "what": m.group(3)})
                    continue
                m = re.match(r"fixed:\s+property=(\S+)\s+(\S+)\s+(.*)$", line)
                if m:
                    fixed.append({"status": "fixed", "property": m.group(1), "commit": m.group(2), "what": m.group(3)})
    return known, fixed


def match_known(known: list, prop: str, sig: dict):
    """A finding matches iff property, class and every key of its pattern agree
    with the violation's signature (pattern values may be lists = any-of)."""
    for rec in known:
        if rec.get("property") != prop:
            continue
        pat = rec.get("pattern", {})
        ok = True
        for k, v in pat.items():
            sv = sig.get(k)
            if isinstance(v, list):
                if sv not in v:
                    ok = False
                    break
            elif sv != v:
                ok = False
                break
        if ok:
            return rec
    return None


# --------------------------------------------------------------------------
# evidence / replay files
# --------------------------------------------------------------------------


def write_evidence(prop: str, tier: str, seed: int, level: str, coverage: dict,
                   assumptions: list, wall_s: float, violations: int, extra: dict | None = None):
    os.makedirs(EVIDENCE_DIR, exist_ok=True)
    doc = {
        "property_id": prop,
        "tier": tier,
        "seed": seed,
        "level": level,
        "coverage": coverage,
        "assumptions": assumptions,
        "wall_s": round(wall_s, 3),
        "violations": violations,
    }
    if extra:
        doc.update(extra)
    path = os.path.join(EVIDENCE_DIR, f"{prop}.json")
    tmp = path + ".tmp"
    with open(tmp, "w") as fh:
        json.dump(doc, fh, indent=1, sort_keys=True, default=_jd)
        fh.write("\n")
    os.replace(tmp, path)
    return path


def write_replay(prop: str, sig: dict, seed_tag: str, body: dict) -> str:
    os.makedirs(REPLAY_DIR, exist_ok=True)
    name = f"{prop}-{sig.get('class', 'x')}-{digest(sig)[:8]}-{seed_tag}.json"
    path = os.path.join(REPLAY_DIR, name)
    with open(path, "w") as fh:
        json.dump(body, fh, indent=1, sort_keys=True, default=_jd)
        fh.write("\n")
    return path


# --------------------------------------------------------------------------
# reference server: a zygote under ANOTHER PYTHONHASHSEED
# --------------------------------------------------------------------------


class RefServer:
    """A fresh interpreter started with a different PYTHONHASHSEED that has only
    bootstrapped rtflite and serves `fn(arg)` requests by forking a pristine
    child per request.  References computed here and runs executed in the local
    zygote (hash seed 0) are thereby always compared across two hash seeds, so
    output that depends on set/dict ordering shows up in every comparison, not
    just in a sampled cross-check."""

    def __init__(self, hashseed: int, coop_locks: bool = False):
        env = dict(os.environ)
        env["PYTHONHASHSEED"] = str(hashseed)
        env["POLARS_MAX_THREADS"] = "1"
        env["VERIF_BOOTED"] = "1"
        env.pop("PYTHONPATH", None)
        prog = ("import sys; sys.path.insert(0, %r); from sim import core; core._ref_server_main(%r)"
                % (VERIF_DIR, bool(coop_locks)))
        self.hashseed = hashseed
        self.proc = subprocess.Popen([sys.executable, "-s", "-c", prog], stdin=subprocess.PIPE,
                                     stdout=subprocess.PIPE, env=env, close_fds=True)

    def call(self, fn_qualname: str, arg, timeout: float = CHILD_TIMEOUT + 10):
        data = pickle.dumps((fn_qualname, arg), protocol=pickle.HIGHEST_PROTOCOL)
        try:
            self.proc.stdin.write(len(data).to_bytes(8, "big") + data)
            self.proc.stdin.flush()
        except (BrokenPipeError, OSError) as e:
            raise HarnessError(f"reference server is gone: {e}") from e
        fd = self.proc.stdout.fileno()
        buf = bytearray()
        deadline = time.monotonic() + timeout

        def need(n):
            while len(buf) < n:
                left = deadline - time.monotonic()
                if left <= 0:
                    raise HarnessError(f"reference server timed out in {fn_qualname}")
                rl, _, _ = select.select([fd], [], [], left)
                if not rl:
                    continue
                b = os.read(fd, 1 << 20)
                if not b:
                    raise HarnessError("reference server closed its pipe")
                buf.extend(b)

        need(8)
        n = int.from_bytes(buf[:8], "big")
        need(8 + n)
        tag, val = pickle.loads(bytes(buf[8:8 + n]))
        if tag == "err":
            raise HarnessError(f"reference server: {val[:1500]}")
        return val

    def close(self):
        try:
            self.proc.stdin.close()
            self.proc.wait(timeout=5)
        except Exception:  # noqa: BLE001
            try:
                self.proc.kill()
            except Exception:  # noqa: BLE001
                pass


def _ref_server_main(coop_locks: bool):
    import importlib

    from . import boot

    inp = sys.stdin.buffer
    out = os.dup(1)
    dn = os.open(os.devnull, os.O_WRONLY)
    os.dup2(dn, 1)
    boot.bootstrap(coop_locks=coop_locks)
    fns: dict = {}
    while True:
        head = inp.read(8)
        if len(head) < 8:
            break
        n = int.from_bytes(head, "big")
        fn_qualname, arg = pickle.loads(inp.read(n))
        try:
            if fn_qualname not in fns:
                modname, fname = fn_qualname.split(":")
                fns[fn_qualname] = getattr(importlib.import_module(modname), fname)
            res = ("ok", run_in_child(fns[fn_qualname], arg))
        except HarnessError as e:
            res = ("err", str(e))
        except BaseException:  # noqa: BLE001
            res = ("err", traceback.format_exc())
        data = pickle.dumps(res, protocol=pickle.HIGHEST_PROTOCOL)
        _write_all(out, len(data).to_bytes(8, "big") + data)
    os._exit(0)


def other_hashseed(root: int) -> int:
    return 1 + derive(root, "reference-hashseed") % (2 ** 31 - 1)

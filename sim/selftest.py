"""./check selftest setup|determinism|sensitivity  (DESIGN §7)."""

from __future__ import annotations

import os
import shutil
import subprocess
import sys
import tempfile

from . import core


def main(opts) -> int:
    what = opts.arg or "setup"
    if what == "setup":
        return setup(opts)
    if what == "determinism":
        return determinism(opts)
    if what == "sensitivity":
        from . import sensitivity

        return sensitivity.main(opts)
    print(f"unknown selftest {what}")
    return 2


def setup(opts) -> int:
    """Offline sanity: the library imports from the working tree, both
    executors work and agree on one reference."""
    from . import boot, recipes as R

    boot.bootstrap()
    rng = core.rng_for(0, "setup")
    t = R.gen_toggles(rng)
    pal = R.gen_palette_of_specs(rng, t)
    rec = R.gen_recipe(rng, t, pal)
    figdir = tempfile.mkdtemp(prefix="vsetup")
    a = core.run_in_child(R.reference_worker, {"recipe": rec, "figdir": figdir})
    b = core.run_fresh("sim.recipes:reference_worker", {"recipe": rec, "figdir": figdir})
    if core.cjson(a["encode"]) != core.cjson(b["encode"]):
        print("HARNESS-ERROR fork and fresh executors disagree in setup")
        return 2
    os.makedirs(core.EVIDENCE_DIR, exist_ok=True)
    print(f"setup ok: rtflite from {boot.PKG_DIR}, tree {boot.source_tree_hash()[:12]}, executors agree")
    return 0


def _digests(engine: str, seeds: int, workers: int, hashseed: int) -> dict:
    env = dict(os.environ)
    env.pop("VERIF_BOOTED", None)
    env["VERIF_HASHSEED"] = str(hashseed)
    env["VERIF_WORKERS"] = str(workers)
    cp = subprocess.run([os.path.join(core.VERIF_DIR, "check"), "selftest", "digests", "--seeds", str(seeds),
                         "--tier", "quick", "--runs", "0", "--wall", "0", "--no-evidence", "--workers", str(workers),
                         ], env=dict(env, VERIF_DIGEST_ENGINE=engine), capture_output=True, text=True, timeout=3000)
    out = {}
    for line in cp.stdout.splitlines():
        if line.startswith("DIGEST "):
            _, i, d = line.split()
            out[int(i)] = d
    if cp.returncode != 0:
        raise core.HarnessError(f"digest run failed: {cp.stdout[-1500:]} {cp.stderr[-1500:]}")
    return out


def determinism(opts) -> int:
    print("HARNESS-ERROR determinism selftest not built yet")
    return 2

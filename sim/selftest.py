"""./check selftest setup|determinism|sensitivity  (DESIGN §7)."""

from __future__ import annotations

import os
import shutil
import subprocess
import sys
import tempfile

from . import core


def main(opts) -> int:
    what = opts.arg or "setup"
    if what == "setup":
        return setup(opts)
    if what == "determinism":
        return determinism(opts)
    if what == "digests":
        return digests(opts)
    if what == "sensitivity":
        from . import sensitivity

        return sensitivity.main(opts)
    print(f"unknown selftest {what}")
    return 2


def setup(opts) -> int:
    """Offline sanity: the library imports from the working tree, both
    executors work and agree on one reference."""
    from . import boot, recipes as R

    boot.bootstrap()
    rng = core.rng_for(0, "setup")
    t = R.gen_toggles(rng)
    pal = R.gen_palette_of_specs(rng, t)
    rec = R.gen_recipe(rng, t, pal)
    figdir = tempfile.mkdtemp(prefix="vsetup")
    a = core.run_in_child(R.reference_worker, {"recipe": rec, "figdir": figdir})
    b = core.run_fresh("sim.recipes:reference_worker", {"recipe": rec, "figdir": figdir})
    if core.cjson(a["encode"]) != core.cjson(b["encode"]):
        print("HARNESS-ERROR fork and fresh executors disagree in setup")
        return 2
    os.makedirs(core.EVIDENCE_DIR, exist_ok=True)
    print(f"setup ok: rtflite from {boot.PKG_DIR}, tree {boot.source_tree_hash()[:12]}, executors agree")
    return 0


ENGINE_SEEDS = {"C14": 120, "C15": 120, "C18": 80}


def digests(opts) -> int:
    """Print one line per (engine, seed index): the digest of that run's event log."""
    from . import boot, faults, histories, schedules

    eng_name = os.environ.get("VERIF_DIGEST_ENGINE", "C14")
    eng = {"C14": histories, "C15": schedules, "C18": faults}[eng_name]
    boot.bootstrap(coop_locks=(eng_name == "C15"))
    n = opts.seeds or ENGINE_SEEDS[eng_name]
    jobs = [{"root": opts.seed, "idx": i} for i in range(n)]
    results, _ = core.pool_map(eng.job, jobs)
    rc = 0
    for i in range(n):
        r = results.get(i)
        if r is None or "harness_error" in r:
            print(f"HARNESS-ERROR digest run {i}: {(r or {}).get('harness_error', 'missing')[:300]}")
            rc = 2
        else:
            print(f"DIGEST {eng_name} {i} {r['digest']} v={len(r['violations'])}")
    return rc


def _digest_run(engine: str, seeds: int, workers: int, hashseed: int) -> dict:
    env = dict(os.environ)
    env.pop("VERIF_BOOTED", None)
    env["VERIF_HASHSEED"] = str(hashseed)
    env["VERIF_DIGEST_ENGINE"] = engine
    cp = subprocess.run([os.path.join(core.VERIF_DIR, "check"), "selftest", "digests", "--seeds", str(seeds),
                         "--workers", str(workers), "--no-evidence"],
                        env=env, capture_output=True, text=True, timeout=3000)
    out = {}
    for line in cp.stdout.splitlines():
        if line.startswith("DIGEST "):
            parts = line.split()
            out[int(parts[2])] = parts[3]
    if cp.returncode != 0 or len(out) != seeds:
        raise core.HarnessError(f"digest run failed ({engine}, W={workers}, hs={hashseed}): "
                                f"{cp.stdout[-800:]} {cp.stderr[-800:]}")
    return out


def determinism(opts) -> int:
    """Every seed twice in separate processes, at 1-ish and 16 workers, under
    two PYTHONHASHSEEDs; all run digests must agree (DESIGN 7)."""
    bad = 0
    total = 0
    for eng in ("C14", "C15", "C18"):
        n = opts.seeds or ENGINE_SEEDS[eng]
        base = _digest_run(eng, n, 16, 0)
        for (w, hs) in ((16, 0), (3, 0), (16, 4242)):
            other = _digest_run(eng, n, w, hs)
            diff = [i for i in range(n) if base[i] != other[i]]
            total += n
            print(f"determinism {eng}: W=16/hs=0 vs W={w}/hs={hs}: {n - len(diff)}/{n} digests equal"
                  + (f"  DIFFER at {diff[:10]}" if diff else ""))
            bad += len(diff)
    if bad:
        print(f"HARNESS-ERROR nondeterminism: {bad} of {total} run digests differ")
        return 2
    print(f"determinism ok: {total} comparisons")
    return 0

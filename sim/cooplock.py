"""Cooperative Lock / RLock (DESIGN §5 "Not hanging on correct code").

Installed into ``threading`` *before* rtflite is imported, so every lock the
library creates is one of these.  For threads the schedule simulator owns, a
blocking acquire that would block is a scheduling point (the thread is marked
blocked and the baton passes); for every other thread they are ordinary locks.
"""

from __future__ import annotations

import _thread
import threading

_real_allocate = _thread.allocate_lock
_installed = False

# set by the schedule simulator while a simulation is running
SCHED = None


def _sim_thread_index():
    s = SCHED
    if s is None:
        return None
    return s.index_of_current()


class CoopLock:
    def __init__(self):
        self._l = _real_allocate()

    def acquire(self, blocking=True, timeout=-1):
        idx = _sim_thread_index()
        if idx is None:
            return self._l.acquire(blocking, timeout) if blocking else self._l.acquire(False)
        while True:
            if self._l.acquire(False):
                return True
            if not blocking:
                return False
            SCHED.block_on(idx, self)  # returns when someone released this lock

    def release(self):
        self._l.release()
        s = SCHED
        if s is not None:
            s.lock_released(self)

    def locked(self):
        return self._l.locked()

    __enter__ = acquire

    def __exit__(self, *a):
        self.release()

    def _at_fork_reinit(self):
        self._l = _real_allocate()

    def __repr__(self):
        return f"<CoopLock {'locked' if self._l.locked() else 'unlocked'}>"


class CoopRLock:
    def __init__(self):
        self._block = CoopLock()
        self._owner = None
        self._count = 0

    def acquire(self, blocking=True, timeout=-1):
        me = _thread.get_ident()
        if self._owner == me:
            self._count += 1
            return True
        rc = self._block.acquire(blocking, timeout)
        if rc:
            self._owner = me
            self._count = 1
        return rc

    __enter__ = acquire

    def release(self):
        if self._owner != _thread.get_ident():
            raise RuntimeError("cannot release un-acquired lock")
        self._count -= 1
        if not self._count:
            self._owner = None
            self._block.release()

    def __exit__(self, *a):
        self.release()

    def locked(self):
        return self._block.locked()

    # Condition support
    def _is_owned(self):
        return self._owner == _thread.get_ident()

    def _release_save(self):
        c, o = self._count, self._owner
        self._count = 0
        self._owner = None
        self._block.release()
        return (c, o)

    def _acquire_restore(self, state):
        self._block.acquire()
        self._count, self._owner = state

    def _at_fork_reinit(self):
        self._block._at_fork_reinit()
        self._owner = None
        self._count = 0


_real_rlock = threading.RLock
CREATED = {"lock": 0, "rlock": 0}


def _from_library() -> bool:
    import sys

    from . import boot

    f = sys._getframe(2)
    return boot.is_lib_code(f.f_code)


def _lock_factory():
    """threading.Lock as seen by everyone after install(): cooperative when the
    caller is library code, the real thing otherwise."""
    if _from_library():
        CREATED["lock"] += 1
        return CoopLock()
    return _real_allocate()


def _rlock_factory():
    if _from_library():
        CREATED["rlock"] += 1
        return CoopRLock()
    return _real_rlock()


def install():
    global _installed
    if _installed:
        return
    threading.Lock = _lock_factory
    threading.RLock = _rlock_factory
    _installed = True


def installed() -> bool:
    return _installed

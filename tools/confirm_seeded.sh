#!/bin/sh
# usage: tools/confirm_seeded.sh <agent dir name, e.g. a1>   (worktree /tmp/wt_<n> with the change applied)
# Confirms: patch == worktree diff, suite passes with the change, demo fails with it and passes without.
n=$1; WT=/tmp/wt_$n; OUT=/tmp/seeded_out/$n
git -C $WT diff > /tmp/confirm_$n.diff
if cmp -s /tmp/confirm_$n.diff $OUT/patch.diff; then echo "patch matches worktree diff"; else echo "PATCH DIFFERS from worktree diff (using worktree diff)"; cp /tmp/confirm_$n.diff $OUT/patch.diff; fi
(cd $WT && PYTHONPATH=$WT/src timeout 900 /venv/bin/python -m pytest -q -p no:cacheprovider -n 8 2>&1 | tail -1)
cd /tmp
timeout 900 /venv/bin/python $OUT/demo.py $WT/src > /tmp/confirm_$n.mod.log 2>&1; echo "demo on modified: exit $?"
timeout 900 /venv/bin/python $OUT/demo.py /repo/src > /tmp/confirm_$n.pristine.log 2>&1; echo "demo on pristine: exit $?"

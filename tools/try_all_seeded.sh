#!/bin/sh
# Re-runs every seeded change under /verif/seeded against its property's quick check
# (scratch copy of /repo/src; /repo itself is never touched). One line per change.
cd "$(dirname "$0")/.."
for d in seeded/S*/; do
  id=$(basename "$d"); prop=$(/venv/bin/python -c "import json;print(json.load(open('$d/meta.json'))['breaks_property'])")
  n=$(tools/try_patch.sh "$d/patch.diff" "$prop" "$@" 2>/dev/null | grep -c "VIOLATION")
  if [ "$n" -gt 0 ]; then echo "caught  $id ($prop): $n distinct violation signature(s)"; else echo "MISSED  $id ($prop)"; fi
done

#!/bin/sh
# Re-runs every seeded change under seeded/ against its property's quick check
# (scratch copy of /repo/src; /repo itself is never touched). One line per change.
# FAST=1 stops each batch soon after its first violation (the registered checks never do that).
cd "$(dirname "$0")/.."
for d in seeded/S*/; do
  id=$(basename "$d"); prop=$(/venv/bin/python -c "import json;print(json.load(open('$d/meta.json'))['breaks_property'])")
  out=$(VERIF_STOP_AFTER_FIRST=$FAST tools/try_patch.sh "$d/patch.diff" "$prop" "$@" 2>/dev/null)
  n=$(printf '%s\n' "$out" | grep -c "VIOLATION")
  h=$(printf '%s\n' "$out" | grep -c "HARNESS-ERROR")
  if [ "$n" -gt 0 ]; then echo "caught  $id ($prop): $n distinct violation signature(s)$( [ "$h" -gt 0 ] && echo ", $h harness error line(s)")";
  elif [ "$h" -gt 0 ]; then echo "HARNESS $id ($prop): $h harness error line(s), no violation reported";
  else echo "MISSED  $id ($prop)"; fi
done

"""Writes the prompt a seeding sub-agent receives: only the property text and its scratch worktree."""
import json, sys
TMPL = '''You are helping test a verification harness by seeding a realistic defect into a Python library.

The library is `rtflite` (pure-Python RTF document composer that renders polars DataFrames into paginated RTF tables/figures). You have your own scratch git worktree of the repository at {wt} (source in {wt}/src/rtflite, tests in {wt}/tests). Work ONLY inside {wt} and {out}. Do NOT read or touch /verif or /repo, and do not look at other /tmp/wt_* directories.

Here is a semantic property the library is supposed to satisfy:

TITLE: {title}
STATEMENT: {statement}
QUANTIFIER: {quant}

YOUR TASK: make a small, realistic change to the library source (something a developer could plausibly commit as a refactoring, optimisation, or feature tweak) that BREAKS this property while:
  (1) the package still imports, and
  (2) the ENTIRE existing test suite still passes. Run it like this (the package is installed editable from another path, so PYTHONPATH is required to test YOUR worktree):
        cd {wt} && PYTHONPATH={wt}/src /venv/bin/python -m pytest -q -p no:cacheprovider -x -n 4
      Expect "423 passed, 22 skipped".
  (3) The breakage must need something SPECIFIC to manifest - {flavour} - NOT something ordinary single use would expose at once. Make it as hard to stumble upon as you can while staying realistic: narrow trigger, ordinary behaviour everywhere else.

Also write a demonstration: a standalone script {out}/demo.py that takes the source root as argv[1] (it must do `sys.path.insert(0, sys.argv[1])` before importing rtflite), exits 0 when the property holds and exits 1 (printing what went wrong) when it is violated. It must exit 1 against your modified worktree ({wt}/src) and exit 0 against the pristine source (to compare, save your change with `git -C {wt} diff > {out}/patch.diff`, revert it with `git -C {wt} apply -R {out}/patch.diff`, run the demo, then re-apply with `git -C {wt} apply {out}/patch.diff`; do NOT use git stash (it is shared with other people) and do not create other worktrees). Verify both runs yourself. Keep the demo's run time under two minutes. There is no LibreOffice on this machine; if you need a converter, pass a duck-typed object via the `converter=` parameter or put a fake executable script on PATH / use `LibreOfficeConverter(executable_path=...)`.

Deliverables (all under {out}/):
  - patch.diff : output of `git -C {wt} diff` (source changes only; do not modify tests)
  - demo.py    : as described
  - NOTES.md   : 5-10 lines: what you changed, why it breaks the property, exactly what is needed for it to manifest, and the commands you ran with their results (test suite result, demo on modified = exit 1, demo on pristine = exit 0).
Leave your change applied in the worktree when you finish. Be concrete and finish with working deliverables; do not stop at a plan.
'''
def main():
    name, pid, flavour = sys.argv[1], sys.argv[2], sys.argv[3]
    for l in open('/verif/properties.jsonl'):
        p = json.loads(l)
        if p['id'] == pid:
            break
    open(f'/tmp/seeded_out/{name}/PROMPT.txt', 'w').write(TMPL.format(
        wt=f'/tmp/wt_{name}', out=f'/tmp/seeded_out/{name}', title=p['title'], statement=p['statement'],
        quant=p['quantifier']['text'], flavour=flavour))
main()

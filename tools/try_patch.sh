#!/bin/sh
# usage: tools/try_patch.sh <patch.diff> <C14|C15|C18> [extra ./check args]
# Applies a seeded change to a scratch copy of /repo/src (never to /repo), runs the
# check against the copy through VERIF_REPO_SRC, removes the copy.
set -e
PATCH=$(realpath "$1"); PROP=$2; shift 2
S=$(mktemp -d /dev/shm/trypatch.XXXXXX)
trap 'rm -rf "$S"' EXIT
cp -r /repo/src "$S/src"
(cd "$S" && patch -p1 -s < "$PATCH")
VERIF_REPO_SRC="$S/src" VERIF_REPLAY_DIR="$S/replays" "$(dirname "$0")/../check" "$PROP" --no-evidence "$@" | cut -c1-260 | sort | uniq -c | sort -rn | head -30
